//! `zkv-cl proto`: replays the behaviours exported by TLC from MC_clproto.tla (CL03 issuance and
//! presentation as a state machine) into the real library and compares every decision with the one
//! the specification computed.  The replayer never decides: expected results come from the case.

use crate::{guard, KeySet};
use crate::util::*;
use rug::{ops::Pow, Integer};
use serde_json::{json, Value};
use sha2::digest::Digest;
use std::sync::Mutex;
use zkryptium::cl03::bases::Bases;
use zkryptium::cl03::ciphersuites::CLCiphersuite;
use zkryptium::cl03::keys::CL03CommitmentPublicKey;
use zkryptium::schemes::algorithms::CL03;
use zkryptium::schemes::generics::{BlindSignature, Commitment, PoKSignature, Signature, ZKPoK};
use zkryptium::utils::message::cl03_message::CL03Message;

enum PObj<C: CLCiphersuite> {
    Com(Commitment<CL03<C>>),
    Zk(Option<ZKPoK<CL03<C>>>),
    BSig(BlindSignature<CL03<C>>),
    Sig(Signature<CL03<C>>),
    SPok(Option<PoKSignature<CL03<C>>>),
}

fn tags(op: &str) -> Vec<&'static str> {
    match op {
        "VerifyZk" | "BlindSign" | "Update" | "Prove" => vec!["C14"],
        "VerifySig" => vec!["C14", "C13"],
        "ProofGen" | "ProofVerify" => vec!["C15"],
        _ => vec!["C14"],
    }
}

pub fn run<C: CLCiphersuite>(keys: &[KeySet], seed: u64, cases: &[Value], threads: usize) -> Value
where
    C::HashAlg: Digest,
{
    let total = Mutex::new((0usize, 0usize, Vec::<Value>::new(), std::collections::BTreeMap::<String, usize>::new()));
    let n = cases.len();
    let chunk = (n + threads - 1) / threads.max(1);
    std::thread::scope(|sc| {
        for t in 0..threads {
            let total = &total;
            sc.spawn(move || {
                let (mut steps, mut checks, mut mism, mut ops) = (0usize, 0usize, Vec::<Value>::new(), std::collections::BTreeMap::<String, usize>::new());
                for ci in (t * chunk).min(n)..((t + 1) * chunk).min(n) {
                    run_case::<C>(&keys[ci % keys.len()], seed, ci, &cases[ci], &mut steps, &mut checks, &mut mism, &mut ops);
                }
                let mut g = total.lock().unwrap();
                g.0 += steps;
                g.1 += checks;
                g.2.extend(mism);
                for (k, v) in ops {
                    *g.3.entry(k).or_default() += v;
                }
            });
        }
    });
    let g = total.into_inner().unwrap();
    json!({"cases": n, "steps": g.0, "checks": g.1, "mismatches": g.2, "ops": g.3, "sample": cases.first()})
}

fn run_case<C: CLCiphersuite>(ks: &KeySet, seed: u64, ci: usize, case: &Value, steps: &mut usize, checks: &mut usize, mism: &mut Vec<Value>, ops: &mut std::collections::BTreeMap<String, usize>)
where
    C::HashAlg: Digest,
{
    // atoms: 0 is the value 0; 1 and 2 are two different lm-bit values (fresh per case)
    let mut rng = Rng::new(seed ^ 0xC14 ^ ((ci as u64) << 20));
    let a1 = rng.bits(C::lm) | Integer::from(1024);
    let mut a2 = rng.bits(C::lm) | Integer::from(1024);
    if a2 == a1 {
        a2 += 1;
    }
    let val = |a: &Value| -> CL03Message {
        CL03Message::new(match a.as_i64().unwrap() {
            0 => Integer::from(0),
            1 => a1.clone(),
            2 => a2.clone(),
            _ => Integer::from(2).pow(C::lm) - 1u32,       // the largest attribute value
        })
    };
    let vecm = |v: &Value| -> Vec<CL03Message> { v.as_array().unwrap().iter().map(|a| val(a)).collect() };
    let idx = |v: &Value| -> Vec<usize> { v.as_array().unwrap().iter().map(|x| x.as_u64().unwrap() as usize).collect() };
    let mut objs: Vec<PObj<C>> = vec![];
    let mut cred: Vec<CL03Message> = vec![];
    let mut bad = |step: usize, st: &Value, observed: String, mism: &mut Vec<Value>| {
        mism.push(json!({"properties": tags(st["op"].as_str().unwrap()), "case": ci, "step": step, "op": st["op"], "args": st["args"],
            "expected": st["res"], "observed": observed, "steps": case}));
    };
    for (si, st) in case.as_array().unwrap().iter().enumerate() {
        *steps += 1;
        let op = st["op"].as_str().unwrap();
        *ops.entry(op.to_string()).or_default() += 1;
        let a = &st["args"];
        let exp = st["res"].as_str().unwrap();
        match op {
            "Cred" => cred = vecm(&a["ms"]),
            "Commit" => {
                let u = idx(&a["U"]);
                for _ in 0..a["count"].as_u64().unwrap() {
                    objs.push(PObj::Com(Commitment::<CL03<C>>::commit_with_pk(&cred, &ks.pk, &ks.bases, Some(&u))));
                }
            }
            "CommitTrusted" => {
                let u = idx(&a["U"]);
                objs.push(PObj::Com(Commitment::<CL03<C>>::commit_with_commitment_pk(&vecm(&a["ms"]), &ks.cpk_own, Some(&u))));
            }
            "Prove" => {
                let u = idx(&a["U"]);
                let ms = vecm(&a["ms"]);
                let PObj::Com(c) = &objs[a["com"].as_u64().unwrap() as usize - 1] else { panic!("not a commitment") };
                let t = a["tcom"].as_i64().unwrap();
                let ct = if t > 0 { match &objs[t as usize - 1] { PObj::Com(x) => Some(x.cl03Commitment()), _ => None } } else { None };
                let zk = guard(|| ZKPoK::<CL03<C>>::generate_proof(&ms, c.cl03Commitment(), ct, &ks.pk, &ks.bases, if t > 0 { Some(&ks.cpk_own) } else { None }, &u));
                objs.push(PObj::Zk(zk.ok()));
            }
            "VerifyZk" | "BlindSign" => {
                let u = idx(&a["U"]);
                let PObj::Com(c) = &objs[a["com"].as_u64().unwrap() as usize - 1] else { panic!("not a commitment") };
                let t = a["tcom"].as_i64().unwrap();
                // a trusted commitment the proof does not know about (-1): made now, over the holder's values
                let adhoc = if t < 0 { Some(Commitment::<CL03<C>>::commit_with_commitment_pk(&cred, &ks.cpk_own, Some(&u))) } else { None };
                let ct = if t > 0 {
                    match &objs[t as usize - 1] { PObj::Com(x) => Some(x.cl03Commitment()), _ => None }
                } else {
                    adhoc.as_ref().map(|x| x.cl03Commitment())
                };
                let cpk = if t != 0 { Some(&ks.cpk_own) } else { None };
                let PObj::Zk(zk) = &objs[a["zk"].as_u64().unwrap() as usize - 1] else { panic!("not a proof") };
                if op == "VerifyZk" {
                    let got = match zk {
                        Some(z) => guard(|| z.verify_proof(c.cl03Commitment(), ct, &ks.pk, &ks.bases, cpk, &u)),
                        None => Ok(false),
                    };
                    *checks += 1;
                    let acc = matches!(got, Ok(true));
                    if acc != (exp == "true") {
                        bad(si, st, format!("{got:?}"), mism);
                        return;
                    }
                } else {
                    let rv = a["rv"].as_array().unwrap();
                    let ridx: Vec<usize> = rv.iter().map(|p| p[0].as_u64().unwrap() as usize).collect();
                    let rmsg: Vec<CL03Message> = rv.iter().map(|p| val(&p[1])).collect();
                    let got = match zk {
                        Some(z) => guard(|| BlindSignature::<CL03<C>>::blind_sign(&ks.pk, &ks.sk, &ks.bases, z, Some(&rmsg), c.cl03Commitment(), ct, cpk, &u, Some(&ridx))),
                        None => Err("no proof".into()),
                    };
                    *checks += 1;
                    match (got, exp) {
                        (Ok(bs), "ok") => objs.push(PObj::BSig(bs)),
                        (Err(_), "refuse") => {}
                        (Ok(_), _) => {
                            bad(si, st, "signed".into(), mism);
                            return;
                        }
                        (Err(e), _) => {
                            bad(si, st, format!("refused: {e}"), mism);
                            return;
                        }
                    }
                }
            }
            "Unblind" => {
                let PObj::BSig(bs) = &objs[a["bsig"].as_u64().unwrap() as usize - 1] else { panic!("not a blind signature") };
                let PObj::Com(c) = &objs[a["com"].as_u64().unwrap() as usize - 1] else { panic!("not a commitment") };
                objs.push(PObj::Sig(bs.unblind_sign(c)));
            }
            "VerifySig" => {
                let PObj::Sig(s) = &objs[a["sig"].as_u64().unwrap() as usize - 1] else { panic!("not a signature") };
                let ms = vecm(&a["ms"]);
                let got = guard(|| s.verify_multiattr(&ks.pk, &ks.bases, &ms));
                *checks += 1;
                if matches!(got, Ok(true)) != (exp == "true") {
                    bad(si, st, format!("{got:?}"), mism);
                    return;
                }
            }
            "Update" => {
                let PObj::BSig(bs) = &objs[a["bsig"].as_u64().unwrap() as usize - 1] else { panic!("not a blind signature") };
                let PObj::Com(c) = &objs[a["com"].as_u64().unwrap() as usize - 1] else { panic!("not a commitment") };
                let rv = a["rv"].as_array().unwrap();
                let ridx: Vec<usize> = rv.iter().map(|p| p[0].as_u64().unwrap() as usize).collect();
                let rmsg: Vec<CL03Message> = rv.iter().map(|p| val(&p[1])).collect();
                let got = guard(|| bs.update_signature(Some(&rmsg), c.cl03Commitment(), &ks.sk, &ks.pk, &ks.bases, Some(&ridx)));
                *checks += 1;
                match got {
                    Ok(b2) => objs.push(PObj::BSig(b2)),
                    Err(e) => {
                        bad(si, st, format!("panic: {e}"), mism);
                        return;
                    }
                }
            }
            "ProofGen" => {
                let PObj::Sig(s) = &objs[a["sig"].as_u64().unwrap() as usize - 1] else { panic!("not a signature") };
                let ms = vecm(&a["ms"]);
                let u = idx(&a["U"]);
                let n = ms.len();
                let bases_n = Bases(ks.bases.0[..n].to_vec());
                let cpk = CL03CommitmentPublicKey { N: ks.cpk_issuer.N.clone(), h: ks.cpk_issuer.h.clone(), g_bases: ks.cpk_issuer.g_bases[..n].to_vec() };
                let p = guard(|| PoKSignature::<CL03<C>>::proof_gen(s.cl03Signature(), &cpk, &ks.pk, &bases_n, &ms, &u));
                objs.push(PObj::SPok(p.ok()));
            }
            "ProofVerify" => {
                let PObj::SPok(p) = &objs[a["spok"].as_u64().unwrap() as usize - 1] else { panic!("not a presentation") };
                let u = idx(&a["U"]);
                let nn = a["n"].as_u64().unwrap() as usize;
                let rv = vecm(&a["rv"]);
                let nb = a["nb"].as_u64().unwrap() as usize;
                let bases_n = Bases(ks.bases.0[..nb].to_vec());
                let cpk = CL03CommitmentPublicKey { N: ks.cpk_issuer.N.clone(), h: ks.cpk_issuer.h.clone(), g_bases: ks.cpk_issuer.g_bases[..nb].to_vec() };
                let got = match p {
                    Some(p) => guard(|| p.proof_verify(&cpk, &ks.pk, &bases_n, &rv, &u, nn)),
                    None => Ok(false),
                };
                *checks += 1;
                if matches!(got, Ok(true)) != (exp == "true") {
                    bad(si, st, format!("{got:?}"), mism);
                    return;
                }
            }
            o => panic!("unknown op {o}"),
        }
    }
}
