//! helpers of the CL03 drivers: deterministic randomness, independent number theory
//! (Miller-Rabin, Jacobi symbol), JSON access to the private fields of the library's types.

use rug::{integer::Order, Integer};
use serde::de::DeserializeOwned;
use serde_json::{json, Value};
use sha2::{Digest, Sha256};
use zkryptium::cl03::commitment::CL03Commitment;
use zkryptium::cl03::signature::CL03Signature;

pub struct Rng(u64);
impl Rng {
    pub fn new(seed: u64) -> Rng {
        Rng(seed.wrapping_mul(0x9E3779B97F4A7C15) ^ 0xA5A5_5A5A_1234_5678)
    }
    pub fn next(&mut self) -> u64 {
        self.0 = self.0.wrapping_add(0x9E3779B97F4A7C15);
        let mut z = self.0;
        z = (z ^ (z >> 30)).wrapping_mul(0xBF58476D1CE4E5B9);
        z = (z ^ (z >> 27)).wrapping_mul(0x94D049BB133111EB);
        z ^ (z >> 31)
    }
    pub fn below(&mut self, n: usize) -> usize {
        (self.next() % n.max(1) as u64) as usize
    }
    /// a uniformly distributed integer below 2^n (deterministic from the seed)
    pub fn bits(&mut self, n: u32) -> Integer {
        let mut bytes = Vec::new();
        while bytes.len() * 8 < n as usize + 64 {
            let mut h = Sha256::new();
            h.update(self.next().to_be_bytes());
            bytes.extend_from_slice(&h.finalize());
        }
        let x = Integer::from_digits(&bytes, Order::MsfBe);
        x.keep_bits(n)
    }
    pub fn below_int(&mut self, n: &Integer) -> Integer {
        if *n <= 0 {
            return Integer::from(0);
        }
        self.bits(n.significant_bits() + 64) % n
    }
}

/// Miller-Rabin with fixed small bases plus pseudo-random bases (independent of rug's primality test)
pub fn miller_rabin(n: &Integer, rounds: u32) -> bool {
    if *n < 2 {
        return false;
    }
    for p in [2u32, 3, 5, 7, 11, 13, 17, 19, 23, 29, 31, 37] {
        if *n == p {
            return true;
        }
        if n.is_divisible_u(p) {
            return false;
        }
    }
    let nm1 = n.clone() - 1u32;
    let s = nm1.find_one(0).unwrap();
    let d = nm1.clone() >> s;
    let mut rng = Rng::new(0xC0FFEE);
    'outer: for i in 0..rounds {
        let a = if i < 12 { Integer::from([2u32, 3, 5, 7, 11, 13, 17, 19, 23, 29, 31, 37][i as usize]) } else { rng.below_int(&(n.clone() - 3u32)) + 2u32 };
        let mut x = a.pow_mod(&d, n).unwrap();
        if x == 1 || x == nm1 {
            continue;
        }
        for _ in 0..s - 1 {
            x = x.clone() * &x % n;
            if x == nm1 {
                continue 'outer;
            }
        }
        return false;
    }
    true
}

/// Jacobi symbol (a / n), n odd positive
pub fn jacobi(a: &Integer, n: &Integer) -> i32 {
    let mut a = a.clone() % n;
    if a < 0 {
        a += n;
    }
    let mut n = n.clone();
    let mut t = 1;
    while a != 0 {
        while a.is_even() {
            a >>= 1;
            let r = n.mod_u(8);
            if r == 3 || r == 5 {
                t = -t;
            }
        }
        std::mem::swap(&mut a, &mut n);
        if a.mod_u(4) == 3 && n.mod_u(4) == 3 {
            t = -t;
        }
        a %= &n;
    }
    if n == 1 {
        t
    } else {
        0
    }
}

pub fn pow_signed(b: &Integer, e: i64, n: &Integer) -> Integer {
    pow_signed_big(b, &Integer::from(e), n)
}
pub fn pow_signed_big(b: &Integer, e: &Integer, n: &Integer) -> Integer {
    b.clone().pow_mod(e, n).expect("base not invertible")
}

pub fn sig_parts(s: &CL03Signature) -> (Integer, Integer, Integer) {
    let v = serde_json::to_value(s).unwrap();
    let g = |k: &str| -> Integer { serde_json::from_value(v[k].clone()).unwrap() };
    (g("e"), g("s"), g("v"))
}
pub fn make_sig<T: DeserializeOwned>(e: &Integer, s: &Integer, v: &Integer) -> T {
    serde_json::from_value(json!({"CL03": {"e": serde_json::to_value(e).unwrap(), "s": serde_json::to_value(s).unwrap(), "v": serde_json::to_value(v).unwrap()}})).unwrap()
}
pub fn make_commitment(value: &Integer, randomness: &Integer) -> CL03Commitment {
    CL03Commitment { value: value.clone(), randomness: randomness.clone() }
}

fn is_int_leaf(v: &Value) -> bool {
    v.as_object().map(|o| o.len() == 2 && o.contains_key("radix") && o.get("value").map(|x| x.is_string()).unwrap_or(false)).unwrap_or(false)
}
/// every integer leaf of a serialised object: (path, value)
pub fn int_leaves(v: &Value) -> Vec<(String, Integer)> {
    fn walk(v: &Value, path: &str, out: &mut Vec<(String, Integer)>) {
        if is_int_leaf(v) {
            out.push((path.to_string(), serde_json::from_value(v.clone()).unwrap()));
            return;
        }
        match v {
            Value::Object(o) => {
                for (k, x) in o {
                    walk(x, &format!("{path}/{k}"), out);
                }
            }
            Value::Array(a) => {
                for (i, x) in a.iter().enumerate() {
                    walk(x, &format!("{path}/{i}"), out);
                }
            }
            _ => {}
        }
    }
    let mut out = vec![];
    walk(v, "", &mut out);
    out
}
pub fn set_leaf(v: &mut Value, path: &str, nv: &Integer) {
    let mut cur = v;
    for seg in path.split('/').filter(|s| !s.is_empty()) {
        cur = if let Ok(i) = seg.parse::<usize>() {
            if cur.is_array() { &mut cur[i] } else { &mut cur[seg] }
        } else {
            &mut cur[seg]
        };
    }
    *cur = serde_json::to_value(nv).unwrap();
}
/// path with the enum tag removed and vector positions generalised
pub fn norm_path(p: &str) -> String {
    p.split('/')
        .filter(|s| !s.is_empty() && *s != "CL03")
        .map(|s| if s.parse::<usize>().is_ok() { "*" } else { s })
        .collect::<Vec<_>>()
        .join("/")
}
