fn main(){}
