//! CL03 drivers (properties C13 .. C19): every driver runs the real library
//! (feature cl03) systematically -- all hidden-position subsets, all mismatch
//! families, every integer leaf of the serialised proofs -- and logs one event
//! per observation.  TLC validates the log against Trace_CL.tla, whose
//! predictions come from CLProofs.tla / CLToy.tla.  The drivers never decide.

mod proto;
mod util;

use sha2::digest::Digest;
use rug::{ops::Pow, Complete, Integer};
use serde_json::{json, Value};
use sha2::Sha256;
use std::panic::{catch_unwind, AssertUnwindSafe};
use std::sync::Mutex;
use util::*;
use zkryptium::cl03::bases::Bases;
use zkryptium::cl03::ciphersuites::{CL1024Sha256, CL2048Sha256, CLCiphersuite};
use zkryptium::cl03::keys::{CL03CommitmentPublicKey, CL03PublicKey, CL03SecretKey};
use zkryptium::cl03::range_proof::Boudot2000RangeProof;
use zkryptium::keys::pair::KeyPair;
use zkryptium::schemes::algorithms::{Ciphersuite, CL03};
use zkryptium::schemes::generics::{BlindSignature, Commitment, PoKSignature, Signature, ZKPoK};
use zkryptium::utils::message::cl03_message::CL03Message;
use zkryptium::verif_hooks;

/// A toy ciphersuite (9-bit safe primes: only 263, 347, 359, 383, 467, 479, 503 exist): the sizes of the toy
/// model MC_cl!C18toy, run through the library's own key generation
#[derive(Clone, PartialEq, Eq, Debug, serde::Serialize, serde::Deserialize)]
pub struct CLToy16Sha256 {}
impl CLCiphersuite for CLToy16Sha256 {
    const SECPARAM: u32 = 8;
    const QSEC: u32 = 19;
    const ln: u32 = 16;
    const lm: u32 = 8;
    const lin: u32 = 8;
    const le: u32 = 10;
    const ls: u32 = 32;
    const RANGEPROOF_ALG: zkryptium::cl03::range_proof::RangeProof = zkryptium::cl03::range_proof::RangeProof::Boudot2000;
    const t: u32 = 128;
    const l: u32 = 40;
    const s: u32 = 40;
    const s1: u32 = 40;
    const s2: u32 = 552;
}
impl Ciphersuite for CLToy16Sha256 {
    type HashAlg = Sha256;
}

pub struct KeySet {
    pub pk: CL03PublicKey,
    pub sk: CL03SecretKey,
    pub bases: Bases,
    pub cpk_issuer: CL03CommitmentPublicKey, // commitment key over the issuer modulus
    pub cpk_own: CL03CommitmentPublicKey,    // commitment key over its own modulus (trusted party)
}

fn gen_keys<C: CLCiphersuite>(count: usize, nattr: usize) -> Vec<KeySet>
where
    C::HashAlg: Digest,
{
    let out = Mutex::new(Vec::new());
    std::thread::scope(|sc| {
        for _ in 0..count {
            sc.spawn(|| {
                let kp = KeyPair::<CL03<C>>::generate();
                let (sk, pk) = kp.into_parts();
                let bases = Bases::generate(&pk, nattr);
                let cpk_issuer = CL03CommitmentPublicKey::generate::<C>(Some(pk.N.clone()), Some(nattr));
                let cpk_own = CL03CommitmentPublicKey::generate::<C>(None, Some(nattr));
                out.lock().unwrap().push(KeySet { pk, sk, bases, cpk_issuer, cpk_own });
            });
        }
    });
    out.into_inner().unwrap()
}

pub fn guard<T>(f: impl FnOnce() -> T) -> Result<T, String> {
    catch_unwind(AssertUnwindSafe(f)).map_err(|p| {
        if let Some(s) = p.downcast_ref::<&str>() {
            s.to_string()
        } else if let Some(s) = p.downcast_ref::<String>() {
            s.clone()
        } else {
            "panic".into()
        }
    })
}
fn b3(r: Result<bool, String>) -> Value {
    match r {
        Ok(true) => json!("true"),
        Ok(false) => json!("false"),
        Err(_) => json!("panic"),
    }
}

fn attrs<C: CLCiphersuite>(rng: &mut Rng, n: usize) -> Vec<CL03Message> {
    (0..n)
        .map(|i| {
            let v = match (rng.below(8), i) {
                (0, _) => Integer::from(0),
                (1, _) => Integer::from(1),
                (2, _) => Integer::from(2).pow(C::lm) - 1,
                _ => rng.bits(C::lm),
            };
            CL03Message::new(v)
        })
        .collect()
}

fn subsets(n: usize) -> Vec<Vec<usize>> {
    (0..(1usize << n)).map(|m| (0..n).filter(|i| m >> i & 1 == 1).collect()).collect()
}

// ---------------------------------------------------------------------------- C13
fn drv_sig<C: CLCiphersuite>(keys: &[KeySet], seed: u64, thorough: bool, derivs: &[Value], ev: &mut Vec<Value>)
where
    C::HashAlg: Digest,
{
    let mut rng = Rng::new(seed);
    let suite = C::SECPARAM * 2;
    for (ki, ks) in keys.iter().enumerate() {
        let other = &keys[(ki + 1) % keys.len()];
        for n in 1..=5usize {
            let mut msgs = attrs::<C>(&mut rng, n);
            if n == 3 {
                // always one credential with an attribute equal to 0 in the middle (a legal value: a_i^0 = 1)
                msgs[1] = CL03Message::new(Integer::from(0));
            }
            let msgs = msgs;
            let sig = Signature::<CL03<C>>::sign_multiattr(&ks.pk, &ks.sk, &ks.bases, &msgs);
            let s = sig.cl03Signature().clone();
            let (e, sv, v) = sig_parts(&s);
            // facts about e (property C13: prime, exactly le bits, coprime to the group order)
            let phi = (ks.sk.p.clone() - 1u32) * (ks.sk.q.clone() - 1u32);
            ev.push(json!({"op": "CLSigFacts", "suite": suite, "key": ki, "n": n,
                "e_prime": miller_rabin(&e, 24), "e_bits": e.significant_bits(), "le": C::le, "e_coprime": e.clone().gcd(&phi) == 1,
                "s_bits": sv.significant_bits(), "ls": C::ls}));
            let honest = guard(|| sig.verify_multiattr(&ks.pk, &ks.bases, &msgs));
            ev.push(json!({"op": "CLVerify", "suite": suite, "key": ki, "n": n, "mode": "multi", "alpha": vec![0; n], "beta": 0, "edit": "none", "stmt": "same", "res": b3(honest)}));
            // bases supplied by the caller (small primes: some are quadratic non-residues), odd attributes:
            // any base coprime to N must work
            if n <= 3 {
                let cb = Bases((0..n).map(|i| Integer::from([2u32, 3, 5, 7, 11][i])).collect());
                let mo: Vec<CL03Message> = msgs.iter().map(|m| CL03Message::new(m.value.clone() | Integer::from(1))).collect();
                for _ in 0..6 {
                    let r = guard(|| Signature::<CL03<C>>::sign_multiattr(&ks.pk, &ks.sk, &cb, &mo).verify_multiattr(&ks.pk, &cb, &mo));
                    ev.push(json!({"op": "CLVerify", "suite": suite, "key": ki, "n": n, "mode": "multi_custom_bases", "alpha": vec![0; n], "beta": 0, "edit": "none", "stmt": "same", "res": b3(r)}));
                }
                if n == 1 {
                    let r = guard(|| Signature::<CL03<C>>::sign(&ks.pk, &ks.sk, &cb, &mo[0]).verify(&ks.pk, &cb, &mo[0]));
                    ev.push(json!({"op": "CLVerify", "suite": suite, "key": ki, "n": 1, "mode": "single_custom_bases", "alpha": [0], "beta": 0, "edit": "none", "stmt": "same", "res": b3(r)}));
                }
            }
            // encodings
            let rt = guard(|| {
                let b = sig.to_bytes();
                let s2 = Signature::<CL03<C>>::from_bytes(&b);
                let j = serde_json::to_string(&sig).unwrap();
                let s3: Signature<CL03<C>> = serde_json::from_str(&j).unwrap();
                s2 == sig && s3 == sig && s2.verify_multiattr(&ks.pk, &ks.bases, &msgs)
            });
            ev.push(json!({"op": "CLRoundTrip", "suite": suite, "what": "signature", "key": ki, "n": n, "res": b3(rt)}));
            // the encodings of signatures whose v is short (small values; the first octets of v zero): octets and JSON
            for vv in [Integer::from(5), Integer::from(2).pow(C::ln - 9) + 3u32, Integer::from(2).pow(C::ln - 17)] {
                let rt = guard(|| {
                    let sg: Signature<CL03<C>> = make_sig(&e, &sv, &vv);
                    let s2 = Signature::<CL03<C>>::from_bytes(&sg.to_bytes());
                    let s3: Signature<CL03<C>> = serde_json::from_str(&serde_json::to_string(&sg).unwrap()).unwrap();
                    s2 == sg && s3 == sg
                });
                ev.push(json!({"op": "CLRoundTrip", "suite": suite, "what": "signature_short_v", "key": ki, "n": n, "res": b3(rt)}));
            }
            // single-attribute interface
            if n == 1 {
                let sg = Signature::<CL03<C>>::sign(&ks.pk, &ks.sk, &ks.bases, &msgs[0]);
                ev.push(json!({"op": "CLVerify", "suite": suite, "key": ki, "n": 1, "mode": "single", "alpha": [0], "beta": 0, "edit": "none", "stmt": "same", "res": b3(guard(|| sg.verify(&ks.pk, &ks.bases, &msgs[0])))}));
                let mut m2 = msgs[0].clone();
                m2.value += 1;
                ev.push(json!({"op": "CLVerify", "suite": suite, "key": ki, "n": 1, "mode": "single", "alpha": [0], "beta": 0, "edit": "none", "stmt": "attr_changed", "res": b3(guard(|| sg.verify(&ks.pk, &ks.bases, &m2)))}));
                // derived pair through the single-attribute verifier
                let (e1, s1, v1) = sig_parts(sg.cl03Signature());
                let v2 = (v1 * &ks.bases.0[0]).modulo(&ks.pk.N);
                let forged: Signature<CL03<C>> = make_sig(&e1, &s1, &v2);
                let m3 = CL03Message::new((&msgs[0].value + &e1).complete());
                ev.push(json!({"op": "CLVerify", "suite": suite, "key": ki, "n": 1, "mode": "single", "alpha": [1], "beta": 0, "edit": "none", "stmt": "derived", "res": b3(guard(|| forged.verify(&ks.pk, &ks.bases, &m3)))}));
            }
            // selective disclosure of bases: every subset (n <= 4)
            if n <= 4 {
                for u in subsets(n) {
                    let r = guard(|| {
                        let (m2, b2) = sig.disclose_selectively(&msgs, Bases(ks.bases.0[..n].to_vec()), &ks.pk, &u);
                        sig.verify_multiattr(&ks.pk, &b2, &m2)
                    });
                    ev.push(json!({"op": "CLDisclose", "suite": suite, "key": ki, "n": n, "U": u, "res": b3(r)}));
                }
            }
            // derivations enumerated by the specification (slice cl_sig): v' = v * prod a_i^alpha_i * b^beta,
            // m'_i = m_i + alpha_i * e, s' = s + beta * e
            for d in derivs {
                let alpha: Vec<i64> = d["alpha"].as_array().unwrap().iter().map(|x| x.as_i64().unwrap()).collect();
                if alpha.len() != n {
                    continue;
                }
                let beta = d["beta"].as_i64().unwrap();
                let mut v2 = v.clone();
                let mut m2 = msgs.clone();
                for i in 0..n {
                    v2 = (v2 * pow_signed(&ks.bases.0[i], alpha[i], &ks.pk.N)).modulo(&ks.pk.N);
                    m2[i].value += Integer::from(alpha[i]) * &e;
                }
                v2 = (v2 * pow_signed(&ks.pk.b, beta, &ks.pk.N)).modulo(&ks.pk.N);
                let s2 = sv.clone() + Integer::from(beta) * &e;
                let forged: Signature<CL03<C>> = make_sig(&e, &s2, &v2);
                let r = guard(|| forged.verify_multiattr(&ks.pk, &ks.bases, &m2));
                ev.push(json!({"op": "CLVerify", "suite": suite, "key": ki, "n": n, "mode": "multi", "alpha": alpha, "beta": beta, "edit": "none", "stmt": "derived", "res": b3(r)}));
            }
            // statement edits
            let mut stm: Vec<(&str, Vec<CL03Message>)> = vec![];
            let mut c = msgs.clone();
            c[n - 1].value += 1;
            stm.push(("attr_changed", c));
            let mut c = msgs.clone();
            c[0].value = Integer::from(2).pow(C::lm) + &msgs[0].value;
            stm.push(("attr_oversized", c));
            let mut c = msgs.clone();
            c[0].value = Integer::from(-1) - &msgs[0].value;
            stm.push(("attr_negative", c));
            if n >= 2 && msgs[0] != msgs[1] {
                let mut c = msgs.clone();
                c.swap(0, 1);
                stm.push(("attrs_swapped", c));
            }
            // (a trailing attribute equal to 0 contributes a_i^0 = 1: the shorter vector is the same statement)
            if n >= 2 && msgs[n - 1].value != 0 {
                stm.push(("attr_removed", msgs[..n - 1].to_vec()));
            }
            for (name, m2) in stm {
                ev.push(json!({"op": "CLVerify", "suite": suite, "key": ki, "n": n, "mode": "multi", "alpha": vec![0; n], "beta": 0, "edit": "none", "stmt": name, "res": b3(guard(|| sig.verify_multiattr(&ks.pk, &ks.bases, &m2)))}));
            }
            // signature component edits
            let nm1 = (&ks.pk.N - &v).complete();
            let two_le = Integer::from(2).pow(C::le);
            let edits: Vec<(&str, Integer, Integer, Integer)> = vec![
                ("e+1", e.clone() + 1, sv.clone(), v.clone()),
                ("e-1", e.clone() - 1, sv.clone(), v.clone()),
                ("e=0", Integer::from(0), sv.clone(), v.clone()),
                ("e=1", Integer::from(1), sv.clone(), v.clone()),
                ("e+2^le", (&e + &two_le).complete(), sv.clone(), v.clone()),
                ("s+1", e.clone(), sv.clone() + 1, v.clone()),
                ("s-1", e.clone(), sv.clone() - 1, v.clone()),
                ("s=0", e.clone(), Integer::from(0), v.clone()),
                ("v+1", e.clone(), sv.clone(), v.clone() + 1),
                ("v=0", e.clone(), sv.clone(), Integer::from(0)),
                ("v=1", e.clone(), sv.clone(), Integer::from(1)),
                ("v=N-v", e.clone(), sv.clone(), nm1),
            ];
            for (name, e2, s2, v2) in edits {
                let f: Signature<CL03<C>> = make_sig(&e2, &s2, &v2);
                ev.push(json!({"op": "CLVerify", "suite": suite, "key": ki, "n": n, "mode": "multi", "alpha": vec![0; n], "beta": 0, "edit": name, "stmt": "same", "res": b3(guard(|| f.verify_multiattr(&ks.pk, &ks.bases, &msgs)))}));
            }
            // signatures assembled from public data only: e = 1 (or another out-of-range exponent) makes the
            // verification equation solvable for v; (-e, s, v^-1) mauls a valid signature
            {
                let mut rhs = Integer::from(1);
                for i in 0..n {
                    rhs = (rhs * pow_signed_big(&ks.bases.0[i], &msgs[i].value, &ks.pk.N)).modulo(&ks.pk.N);
                }
                let s_f = rng.bits(C::ls);
                rhs = (rhs * pow_signed_big(&ks.pk.b, &s_f, &ks.pk.N) * &ks.pk.c).modulo(&ks.pk.N);
                let f1: Signature<CL03<C>> = make_sig(&Integer::from(1), &s_f, &rhs);
                ev.push(json!({"op": "CLVerify", "suite": suite, "key": ki, "n": n, "mode": "multi", "alpha": vec![0; n], "beta": 0, "edit": "forged:e=1", "stmt": "same", "res": b3(guard(|| f1.verify_multiattr(&ks.pk, &ks.bases, &msgs)))}));
                if n == 1 {
                    ev.push(json!({"op": "CLVerify", "suite": suite, "key": ki, "n": 1, "mode": "single", "alpha": [0], "beta": 0, "edit": "forged:e=1", "stmt": "same", "res": b3(guard(|| f1.verify(&ks.pk, &ks.bases, &msgs[0])))}));
                }
                let vinv = v.clone().invert(&ks.pk.N).unwrap();
                let f2: Signature<CL03<C>> = make_sig(&(-e.clone()), &sv, &vinv);
                ev.push(json!({"op": "CLVerify", "suite": suite, "key": ki, "n": n, "mode": "multi", "alpha": vec![0; n], "beta": 0, "edit": "mauled:-e", "stmt": "same", "res": b3(guard(|| f2.verify_multiattr(&ks.pk, &ks.bases, &msgs)))}));
            }
            // other bases / other key
            // (attributes equal to 0 make their base irrelevant: a^0 = 1)
            if msgs.iter().any(|m| m.value != 0) {
                ev.push(json!({"op": "CLVerify", "suite": suite, "key": ki, "n": n, "mode": "multi", "alpha": vec![0; n], "beta": 0, "edit": "none", "stmt": "other_bases", "res": b3(guard(|| sig.verify_multiattr(&ks.pk, &other.bases, &msgs)))}));
            }
            ev.push(json!({"op": "CLVerify", "suite": suite, "key": ki, "n": n, "mode": "multi", "alpha": vec![0; n], "beta": 0, "edit": "none", "stmt": "other_key", "res": b3(guard(|| sig.verify_multiattr(&other.pk, &ks.bases, &msgs)))}));
            if !thorough && n >= 3 {
                break;
            }
        }
    }
}

// ---------------------------------------------------------------------------- C14
fn drv_blind<C: CLCiphersuite>(keys: &[KeySet], seed: u64, thorough: bool, leaf_stride: usize, ev: &mut Vec<Value>)
where
    C::HashAlg: Digest,
{
    let mut rng = Rng::new(seed ^ 0x14);
    let suite = C::SECPARAM * 2;
    let maxn = if thorough { 5 } else { 3 };
    for (ki, ks) in keys.iter().enumerate() {
        let other = &keys[(ki + 1) % keys.len()];
        for n in 1..=maxn {
            let msgs = attrs::<C>(&mut rng, n);
            for u in subsets(n).into_iter().filter(|u| !u.is_empty()) {
                for trusted in [false, true] {
                    if trusted && !thorough && u.len() > 1 {
                        continue;
                    }
                    let revealed_idx: Vec<usize> = (0..n).filter(|i| !u.contains(i)).collect();
                    // without a trusted commitment: the first of several revealed attributes has the value 0
                    let msgs = {
                        let mut m = msgs.clone();
                        if !trusted && revealed_idx.len() >= 2 {
                            m[revealed_idx[0]].value = Integer::from(0);
                        }
                        m
                    };
                    let revealed: Vec<CL03Message> = revealed_idx.iter().map(|&i| msgs[i].clone()).collect();
                    let run = guard(|| {
                        let commitment = Commitment::<CL03<C>>::commit_with_pk(&msgs, &ks.pk, &ks.bases, Some(&u));
                        let ctrusted = if trusted { Some(Commitment::<CL03<C>>::commit_with_commitment_pk(&msgs, &ks.cpk_own, Some(&u))) } else { None };
                        let zk = ZKPoK::<CL03<C>>::generate_proof(&msgs, commitment.cl03Commitment(), ctrusted.as_ref().map(|c| c.cl03Commitment()), &ks.pk, &ks.bases,
                            if trusted { Some(&ks.cpk_own) } else { None }, &u);
                        (commitment, ctrusted, zk)
                    });
                    let (commitment, ctrusted, zk) = match run {
                        Ok(x) => x,
                        Err(p) => {
                            ev.push(json!({"op": "CLIssue", "suite": suite, "key": ki, "n": n, "U": u, "trusted": trusted, "mismatch": "none", "verify_proof": "panic", "signed": false, "verifies": false, "detail": p}));
                            continue;
                        }
                    };
                    let ct = ctrusted.as_ref().map(|c| c.cl03Commitment());
                    let cpk = if trusted { Some(&ks.cpk_own) } else { None };
                    let vp = guard(|| zk.verify_proof(commitment.cl03Commitment(), ct, &ks.pk, &ks.bases, cpk, &u));
                    let issued = guard(|| {
                        let bs = BlindSignature::<CL03<C>>::blind_sign(&ks.pk, &ks.sk, &ks.bases, &zk, Some(&revealed), commitment.cl03Commitment(), ct, cpk, &u, Some(&revealed_idx));
                        let sig = bs.unblind_sign(&commitment);
                        (bs, sig.verify_multiattr(&ks.pk, &ks.bases, &msgs))
                    });
                    ev.push(json!({"op": "CLIssue", "suite": suite, "key": ki, "n": n, "U": u, "trusted": trusted, "mismatch": "none",
                        "verify_proof": b3(vp), "signed": issued.is_ok(), "verifies": issued.as_ref().map(|x| x.1).unwrap_or(false)}));
                    // re-issuing after a revealed attribute changed
                    if let (Ok((bs, _)), false) = (&issued, revealed.is_empty()) {
                        let mut m2 = msgs.clone();
                        // another in-range value for the first revealed attribute
                        if m2[revealed_idx[0]].value >= 7 {
                            m2[revealed_idx[0]].value -= 7;
                        } else {
                            m2[revealed_idx[0]].value += 7;
                        }
                        let rev2: Vec<CL03Message> = revealed_idx.iter().map(|&i| m2[i].clone()).collect();
                        let r = guard(|| {
                            let upd = bs.update_signature(Some(&rev2), commitment.cl03Commitment(), &ks.sk, &ks.pk, &ks.bases, Some(&revealed_idx));
                            let sg = upd.unblind_sign(&commitment);
                            (sg.verify_multiattr(&ks.pk, &ks.bases, &m2), sg.verify_multiattr(&ks.pk, &ks.bases, &msgs))
                        });
                        ev.push(json!({"op": "CLUpdate", "suite": suite, "key": ki, "n": n, "U": u, "new_ok": b3(r.clone().map(|x| x.0)), "old_ok": b3(r.map(|x| x.1))}));
                    }
                    // the hidden set written in descending order (same slice on both sides): any order is a valid way to
                    // name the set
                    if u.len() >= 2 && !trusted {
                        let ur: Vec<usize> = u.iter().rev().cloned().collect();
                        let r = guard(|| {
                            let c2 = Commitment::<CL03<C>>::commit_with_pk(&msgs, &ks.pk, &ks.bases, Some(&ur));
                            let z2 = ZKPoK::<CL03<C>>::generate_proof(&msgs, c2.cl03Commitment(), None, &ks.pk, &ks.bases, None, &ur);
                            let vp = z2.verify_proof(c2.cl03Commitment(), None, &ks.pk, &ks.bases, None, &ur);
                            let bs = BlindSignature::<CL03<C>>::blind_sign(&ks.pk, &ks.sk, &ks.bases, &z2, Some(&revealed), c2.cl03Commitment(), None, None, &ur, Some(&revealed_idx));
                            (vp, bs.unblind_sign(&c2).verify_multiattr(&ks.pk, &ks.bases, &msgs))
                        });
                        ev.push(json!({"op": "CLIssue", "suite": suite, "key": ki, "n": n, "U": ur, "trusted": false, "mismatch": "none",
                            "verify_proof": b3(r.clone().map(|x| x.0)), "signed": r.is_ok(), "verifies": r.map(|x| x.1).unwrap_or(false)}));
                    }
                    // mismatch families (the issuer must not sign): only for a sample of (n, U) in the quick tier
                    // mismatch families and leaf perturbations for a sample of (n, U): all of n <= 2 (thorough: n <= 3 with
                    // at most two hidden), the last position alone, everything hidden; first two keys only
                    let sampled = n == 1 || (n == maxn && (u == vec![n - 1] || u.len() == n)) || (thorough && (n <= 2 || (n == 3 && u.len() <= 2)));
                    if !sampled || ki >= 2 {
                        continue;
                    }
                    let mut m_other = msgs.clone();
                    m_other[u[0]].value += 1;
                    let c_other = Commitment::<CL03<C>>::commit_with_pk(&m_other, &ks.pk, &ks.bases, Some(&u));
                    let u_other: Vec<usize> = if u.len() < n { (0..n).filter(|i| !u.contains(i)).take(u.len().max(1)).collect() } else { vec![0] };
                    let ct2 = Commitment::<CL03<C>>::commit_with_commitment_pk(&m_other, &ks.cpk_own, Some(&u));
                    let mut fam: Vec<(&str, Box<dyn Fn() -> bool + '_>)> = vec![];
                    fam.push(("other_commitment", Box::new(|| zk.verify_proof(c_other.cl03Commitment(), ct, &ks.pk, &ks.bases, cpk, &u))));
                    if u_other != u && u_other.len() == u.len() {
                        fam.push(("other_U", Box::new(|| zk.verify_proof(commitment.cl03Commitment(), ct, &ks.pk, &ks.bases, cpk, &u_other))));
                    }
                    fam.push(("other_bases", Box::new(|| zk.verify_proof(commitment.cl03Commitment(), ct, &ks.pk, &other.bases, cpk, &u))));
                    fam.push(("other_pk", Box::new(|| zk.verify_proof(commitment.cl03Commitment(), ct, &other.pk, &ks.bases, cpk, &u))));
                    if trusted {
                        fam.push(("other_trusted_commitment", Box::new(|| zk.verify_proof(commitment.cl03Commitment(), Some(ct2.cl03Commitment()), &ks.pk, &ks.bases, Some(&ks.cpk_own), &u))));
                    }
                    for (name, f) in fam {
                        let r = guard(|| f());
                        let refused = !matches!(r, Ok(true));
                        ev.push(json!({"op": "CLIssue", "suite": suite, "key": ki, "n": n, "U": u, "trusted": trusted, "mismatch": name, "verify_proof": b3(r), "signed": !refused, "verifies": false}));
                    }
                    // a proof assembled for ANOTHER commitment by a prover that assumes the challenge does not cover its
                    // first message t (weak Fiat-Shamir): responses chosen first, t solved for
                    {
                        let mut zj = serde_json::to_value(&zk).unwrap();
                        let cy = c_other.cl03Commitment();
                        let mut s_in = String::new();
                        let mut lhs = Integer::from(1);
                        let mut s1 = vec![];
                        for &i in &u {
                            s_in += &ks.bases.0[i].to_string();
                            let r1 = rng.bits(C::lm + 256);
                            lhs = (lhs * pow_signed_big(&ks.bases.0[i], &r1, &ks.pk.N)).modulo(&ks.pk.N);
                            s1.push(r1);
                        }
                        let s2 = rng.bits(C::ln + 256);
                        lhs = (lhs * pow_signed_big(&ks.pk.b, &s2, &ks.pk.N)).modulo(&ks.pk.N);
                        s_in = s_in + &ks.pk.b.to_string() + &cy.value.to_string();
                        let c_weak = Integer::from_digits(<C::HashAlg as Digest>::digest(s_in).as_slice(), rug::integer::Order::MsfBe);
                        let t = (lhs * pow_signed_big(&cy.value, &(-c_weak), &ks.pk.N)).modulo(&ks.pk.N);
                        zj["CL03"]["proof_commited_msgs"]["t"] = serde_json::to_value(&t).unwrap();
                        zj["CL03"]["proof_commited_msgs"]["s1"] = serde_json::to_value(&s1).unwrap();
                        zj["CL03"]["proof_commited_msgs"]["s2"] = serde_json::to_value(&s2).unwrap();
                        let r = guard(|| {
                            let z2: ZKPoK<CL03<C>> = serde_json::from_value(zj).unwrap();
                            z2.verify_proof(cy, ct, &ks.pk, &ks.bases, cpk, &u)
                        });
                        let refused = !matches!(r, Ok(true));
                        ev.push(json!({"op": "CLIssue", "suite": suite, "key": ki, "n": n, "U": u, "trusted": trusted, "mismatch": "crafted_weak_fiat_shamir", "verify_proof": b3(r), "signed": !refused, "verifies": false}));
                    }
                    if !trusted {
                        // the issuer demands a trusted commitment but the holder's proof was made without one
                        let r = guard(|| zk.verify_proof(commitment.cl03Commitment(), Some(ct2.cl03Commitment()), &ks.pk, &ks.bases, Some(&ks.cpk_own), &u));
                        let refused = !matches!(r, Ok(true));
                        ev.push(json!({"op": "CLIssue", "suite": suite, "key": ki, "n": n, "U": u, "trusted": trusted, "mismatch": "proof_without_trusted_part", "verify_proof": b3(r), "signed": !refused, "verifies": false}));
                    }
                    // blind_sign itself refuses a mismatching proof (observed as the documented panic)
                    let r = guard(|| BlindSignature::<CL03<C>>::blind_sign(&ks.pk, &ks.sk, &ks.bases, &zk, Some(&revealed), c_other.cl03Commitment(), ct, cpk, &u, Some(&revealed_idx)));
                    ev.push(json!({"op": "CLIssue", "suite": suite, "key": ki, "n": n, "U": u, "trusted": trusted, "mismatch": "blind_sign_other_commitment", "verify_proof": "false", "signed": r.is_ok(), "verifies": false}));
                    // every integer leaf of the serialised proof perturbed
                    let zj = serde_json::to_value(&zk).unwrap();
                    let leaves = int_leaves(&zj);
                    ev.push(json!({"op": "CLFormat", "suite": suite, "proof": "zkpok", "n": n, "U": u, "trusted": trusted, "paths": leaves.iter().map(|l| norm_path(&l.0)).collect::<Vec<_>>()}));
                    for (li, (path, val)) in leaves.iter().enumerate() {
                        if (li + ki + n) % leaf_stride != 0 {
                            continue;
                        }
                        for (how, nv) in [("+1", val.clone() + 1), ("-1", val.clone() - 1), ("=0", Integer::from(0)), ("+2^128", val.clone() + Integer::from(2).pow(128))] {
                            if &nv == val {
                                continue;
                            }
                            let mut z2 = zj.clone();
                            set_leaf(&mut z2, path, &nv);
                            let r = guard(|| {
                                let zk2: ZKPoK<CL03<C>> = serde_json::from_value(z2).unwrap();
                                zk2.verify_proof(commitment.cl03Commitment(), ct, &ks.pk, &ks.bases, cpk, &u)
                            });
                            ev.push(json!({"op": "CLLeaf", "suite": suite, "proof": "zkpok", "n": n, "U": u, "trusted": trusted, "path": norm_path(path), "path2": norm_path(path), "how": how, "res": b3(r)}));
                        }
                    }
                }
            }
        }
    }
}

// ---------------------------------------------------------------------------- C15
fn drv_pok<C: CLCiphersuite>(keys: &[KeySet], seed: u64, thorough: bool, leaf_stride: usize, ev: &mut Vec<Value>)
where
    C::HashAlg: Digest,
{
    let mut rng = Rng::new(seed ^ 0x15);
    let suite = C::SECPARAM * 2;
    let maxn = if thorough { 5 } else { 3 };
    for (ki, ks) in keys.iter().enumerate() {
        let other = &keys[(ki + 1) % keys.len()];
        for n in 1..=maxn {
            let msgs = attrs::<C>(&mut rng, n);
            let sig = Signature::<CL03<C>>::sign_multiattr(&ks.pk, &ks.sk, &ks.bases, &msgs);
            let bases_n = Bases(ks.bases.0[..n].to_vec());
            let cpk = CL03CommitmentPublicKey { N: ks.cpk_issuer.N.clone(), h: ks.cpk_issuer.h.clone(), g_bases: ks.cpk_issuer.g_bases[..n].to_vec() };
            for u in subsets(n) {
                let revealed: Vec<CL03Message> = (0..n).filter(|i| !u.contains(i)).map(|i| msgs[i].clone()).collect();
                let pr = guard(|| PoKSignature::<CL03<C>>::proof_gen(sig.cl03Signature(), &cpk, &ks.pk, &bases_n, &msgs, &u));
                let proof = match pr {
                    Ok(p) => p,
                    Err(e) => {
                        ev.push(json!({"op": "CLPoK", "suite": suite, "key": ki, "n": n, "U": u, "mismatch": "none", "res": "panic", "detail": e}));
                        continue;
                    }
                };
                let honest = guard(|| proof.proof_verify(&cpk, &ks.pk, &bases_n, &revealed, &u, n));
                ev.push(json!({"op": "CLPoK", "suite": suite, "key": ki, "n": n, "U": u, "mismatch": "none", "res": b3(honest)}));
                let sampled = if thorough { n <= 3 || u.len() == n || u.is_empty() || u == vec![n - 1] } else { n == maxn || u.len() == n || u.is_empty() };
                if !sampled || ki >= 2 {
                    continue;
                }
                // single edits of the statement
                let mut fam: Vec<(&str, Result<bool, String>)> = vec![];
                if !revealed.is_empty() {
                    let mut r2 = revealed.clone();
                    r2[0].value += 1;
                    fam.push(("revealed_changed", guard(|| proof.proof_verify(&cpk, &ks.pk, &bases_n, &r2, &u, n))));
                }
                fam.push(("other_pk", guard(|| proof.proof_verify(&cpk, &other.pk, &bases_n, &revealed, &u, n))));
                let ob = Bases(other.bases.0[..n].to_vec());
                if msgs.iter().any(|m| m.value != 0) {
                    fam.push(("other_bases", guard(|| proof.proof_verify(&cpk, &ks.pk, &ob, &revealed, &u, n))));
                }
                let ocpk = CL03CommitmentPublicKey::generate::<C>(Some(ks.pk.N.clone()), Some(n));
                fam.push(("other_commitment_key", guard(|| proof.proof_verify(&ocpk, &ks.pk, &bases_n, &revealed, &u, n))));
                if u.len() < n {
                    // another hidden set of the same size
                    let u2: Vec<usize> = (0..n).filter(|i| !u.contains(i)).take(u.len()).collect();
                    if u2.len() == u.len() && u2 != u {
                        let rv2: Vec<CL03Message> = (0..n).filter(|i| !u2.contains(i)).map(|i| msgs[i].clone()).collect();
                        fam.push(("other_U", guard(|| proof.proof_verify(&cpk, &ks.pk, &bases_n, &rv2, &u2, n))));
                    }
                }
                if n >= 2 && !revealed.is_empty() && revealed[revealed.len() - 1].value != 0 && !u.contains(&(n - 1)) {
                    fam.push(("n_minus_1", guard(|| proof.proof_verify(&cpk, &ks.pk, &bases_n, &revealed[..revealed.len() - 1], &u, n - 1))));
                }
                if n < 5 {
                    // one more attribute than signed, with spare bases available on both sides
                    let cpk_full = CL03CommitmentPublicKey { N: ks.cpk_issuer.N.clone(), h: ks.cpk_issuer.h.clone(), g_bases: ks.cpk_issuer.g_bases.clone() };
                    fam.push(("n_plus_1_spare_bases", guard(|| proof.proof_verify(&cpk_full, &ks.pk, &ks.bases, &revealed, &u, n + 1))));
                }
                let cpk_n2 = CL03CommitmentPublicKey { N: cpk.N.clone() + 2u32, h: cpk.h.clone(), g_bases: cpk.g_bases.clone() };
                fam.push(("commitment_key_modulus_changed", guard(|| proof.proof_verify(&cpk_n2, &ks.pk, &bases_n, &revealed, &u, n))));
                for (name, r) in fam {
                    ev.push(json!({"op": "CLPoK", "suite": suite, "key": ki, "n": n, "U": u, "mismatch": name, "res": b3(r)}));
                }
                // informational (F11): the range proof of a hidden attribute replaced by an honest range proof about
                // ANOTHER commitment (to another in-range value): is it noticed?
                if !u.is_empty() {
                    let r = guard(|| {
                        let mut pj2 = serde_json::to_value(&proof).unwrap();
                        let gi = &cpk.g_bases[u[0]];
                        let x2 = Integer::from(12345);
                        let r2 = rng.bits(C::ln);
                        let cv = (pow_signed_big(gi, &x2, &cpk.N) * pow_signed_big(&cpk.h, &r2, &cpk.N)).modulo(&cpk.N);
                        let rp = Boudot2000RangeProof::prove::<C::HashAlg>(&x2, &make_commitment(&cv, &r2), gi, &cpk.h, &cpk.N, &Integer::from(0), &(Integer::from(2).pow(C::lm) - 1u32));
                        pj2["CL03"]["range_proofs_commited_mi"][0] = serde_json::to_value(&rp).unwrap();
                        let pp: PoKSignature<CL03<C>> = serde_json::from_value(pj2).unwrap();
                        pp.proof_verify(&cpk, &ks.pk, &bases_n, &revealed, &u, n)
                    });
                    ev.push(json!({"op": "CLInfoLink", "suite": suite, "proof": "spok", "n": n, "U": u, "what": "range proof of hidden attribute replaced by a range proof about another commitment", "res": b3(r)}));
                }
                let pj = serde_json::to_value(&proof).unwrap();
                let leaves = int_leaves(&pj);
                ev.push(json!({"op": "CLFormat", "suite": suite, "proof": "spok", "n": n, "U": u, "trusted": false, "paths": leaves.iter().map(|l| norm_path(&l.0)).collect::<Vec<_>>()}));
                for (li, (path, val)) in leaves.iter().enumerate() {
                    if (li + ki + n) % leaf_stride != 0 {
                        continue;
                    }
                    let mut variants = vec![("+1", val.clone() + 1), ("-1", val.clone() - 1), ("=0", Integer::from(0)), ("+2^128", val.clone() + Integer::from(2).pow(128))];
                    if li + 1 < leaves.len() {
                        variants.push(("swap", leaves[li + 1].1.clone()));
                    }
                    for (how, nv) in variants {
                        if &nv == val {
                            continue;
                        }
                        let mut p2 = pj.clone();
                        set_leaf(&mut p2, path, &nv);
                        if how == "swap" {
                            set_leaf(&mut p2, &leaves[li + 1].0, val);
                        }
                        let r = guard(|| {
                            let pp: PoKSignature<CL03<C>> = serde_json::from_value(p2).unwrap();
                            pp.proof_verify(&cpk, &ks.pk, &bases_n, &revealed, &u, n)
                        });
                        let path2 = if how == "swap" { norm_path(&leaves[li + 1].0) } else { norm_path(path) };
                        ev.push(json!({"op": "CLLeaf", "suite": suite, "proof": "spok", "n": n, "U": u, "trusted": false, "path": norm_path(path), "path2": path2, "how": how, "res": b3(r)}));
                    }
                }
            }
        }
    }
}

// ---------------------------------------------------------------------------- C16
fn drv_boudot<C: CLCiphersuite>(keys: &[KeySet], seed: u64, thorough: bool, ev: &mut Vec<Value>)
where
    C::HashAlg: Digest,
{
    let mut rng = Rng::new(seed ^ 0x16);
    let suite = C::SECPARAM * 2;
    for (ki, ks) in keys.iter().enumerate() {
        let other = &keys[(ki + 1) % keys.len()];
        // base pairs: (a_0, b) over the issuer modulus, (g_0, h) of a commitment key over the issuer / own modulus
        let basesets: Vec<(&str, Integer, Integer, Integer)> = vec![
            ("signer", ks.bases.0[0].clone(), ks.pk.b.clone(), ks.pk.N.clone()),
            ("cpk_issuer", ks.cpk_issuer.g_bases[0].clone(), ks.cpk_issuer.h.clone(), ks.cpk_issuer.N.clone()),
            ("cpk_own", ks.cpk_own.g_bases[0].clone(), ks.cpk_own.h.clone(), ks.cpk_own.N.clone()),
        ];
        let widths: Vec<(&str, Integer)> = {
            let mut w = vec![("1", Integer::from(1)), ("2", Integer::from(2)), ("3", Integer::from(3)), ("2^8", Integer::from(256)), ("2^64", Integer::from(2).pow(64)), ("2^256-1", Integer::from(2).pow(256) - 1)];
            if thorough {
                w.push(("2^1024-1", Integer::from(2).pow(1024) - 1));
            }
            w
        };
        for (bi, (bname, g, h, n)) in basesets.iter().enumerate() {
            if !thorough && bi > 0 && ki > 0 {
                continue;
            }
            for (wname, w) in &widths {
                let a = if rng.below(2) == 0 { Integer::from(0) } else { rng.bits(64) };
                let b = (&a + w).complete();
                let mid: Integer = a.clone() + (w.clone() / 2u32);
                let mut xs: Vec<(&str, Integer)> = vec![("a", a.clone()), ("b", b.clone()), ("mid", mid)];
                if *w > 2 {
                    xs.push(("a+1", a.clone() + 1));
                    xs.push(("b-1", b.clone() - 1));
                    xs.push(("random", a.clone() + rng.below_int(w)));
                }
                for (xname, x) in &xs {
                    let r = rng.bits(C::ln);
                    let cv = (pow_signed_big(g, x, n) * pow_signed_big(h, &r, n)).modulo(n);
                    let com = make_commitment(&cv, &r);
                    let pr = guard(|| Boudot2000RangeProof::prove::<C::HashAlg>(x, &com, g, h, n, &a, &b));
                    let Ok(proof) = pr else {
                        ev.push(json!({"op": "CLRange", "suite": suite, "key": ki, "bases": bname, "width": wname, "x": xname, "case": "honest", "res": "panic"}));
                        continue;
                    };
                    ev.push(json!({"op": "CLRange", "suite": suite, "key": ki, "bases": bname, "width": wname, "x": xname, "case": "honest", "res": b3(guard(|| proof.verify::<C::HashAlg>(g, h, n, &a, &b)))}));
                    // the h-parts of E_a_1, E_a_2, E_b_1, E_b_2 (the witness holder strips the g-parts): their only
                    // relation is E_a_1 E_a_2 = E_a, E_b_1 E_b_2 = E_b; no two are equal, no two cancel
                    {
                        let pj0 = serde_json::to_value(&proof).unwrap();
                        let tt = 2 * (128u32 + 40 + 1) + (&b - &a).complete().significant_bits();
                        let two_t = Integer::from(2).pow(tt);
                        let mut parts: Vec<(&str, Integer)> = vec![];
                        for widen in [false, true] {
                            let sq = Integer::from((&b - &a).complete().sqrt_ref());
                            let shift = if widen { Integer::from(2).pow(40 + 128 + tt / 2 + 1) * sq } else { Integer::from(0) };
                            let xa = (&two_t * x).complete() - ((&two_t * &a).complete() - &shift);
                            let xb = ((&two_t * &b).complete() + &shift) - (&two_t * x).complete();
                            if xa < 0 || xb < 0 {
                                continue;
                            }
                            let (xa1, xb1) = (Integer::from(xa.sqrt_ref()), Integer::from(xb.sqrt_ref()));
                            let (xa1s, xb1s) = (xa1.clone() * &xa1, xb1.clone() * &xb1);
                            let gets = |k: &str| -> Integer { serde_json::from_value(pj0["proof_of_tolerance"][k].clone()).unwrap() };
                            let strip = |k: &str, ex: &Integer| (gets(k) * pow_signed_big(g, &(-ex.clone()), n)).modulo(n);
                            let cand = vec![("E_a_1", strip("E_a_1", &xa1s)), ("E_a_2", strip("E_a_2", &(xa.clone() - &xa1s))), ("E_b_1", strip("E_b_1", &xb1s)), ("E_b_2", strip("E_b_2", &(xb.clone() - &xb1s)))];
                            // keep the reading under which the stripped parts multiply to 1 (the library's reference points)
                            let prod = cand.iter().fold(Integer::from(1), |acc, c| (acc * &c.1).modulo(n));
                            if prod == 1 {
                                parts = cand;
                                break;
                            }
                        }
                        let mut hits: Vec<Value> = vec![];
                        for i in 0..parts.len() {
                            for j in i + 1..parts.len() {
                                let pr = (parts[i].1.clone() * &parts[j].1).modulo(n);
                                if parts[i].1 == parts[j].1 || pr == 1 {
                                    hits.push(json!([parts[i].0, parts[j].0]));
                                }
                            }
                        }
                        ev.push(json!({"op": "CLRangeSplit", "suite": suite, "key": ki, "bases": bname, "width": wname, "x": xname, "stripped": parts.len(), "hits": hits}));
                    }
                    if *xname != "mid" && !thorough {
                        continue;
                    }
                    // against other bounds / bases / modulus
                    let a2 = a.clone() + 1;
                    let b2 = b.clone() + 1;
                    ev.push(json!({"op": "CLRange", "suite": suite, "key": ki, "bases": bname, "width": wname, "x": xname, "case": "other_bounds", "res": b3(guard(|| proof.verify::<C::HashAlg>(g, h, n, &a2, &b2)))}));
                    ev.push(json!({"op": "CLRange", "suite": suite, "key": ki, "bases": bname, "width": wname, "x": xname, "case": "other_bases", "res": b3(guard(|| proof.verify::<C::HashAlg>(h, g, n, &a, &b)))}));
                    ev.push(json!({"op": "CLRange", "suite": suite, "key": ki, "bases": bname, "width": wname, "x": xname, "case": "other_modulus", "res": b3(guard(|| proof.verify::<C::HashAlg>(g, h, &other.pk.N, &a, &b)))}));
                    // transplants: the sub-proofs of the honest proof carried over to another commitment
                    let pj = serde_json::to_value(&proof).unwrap();
                    let big = Integer::from(2).pow(300);
                    let targets: Vec<(&str, Integer)> = vec![("a-1", a.clone() - 1), ("b+1", b.clone() + 1), ("a-2^k", (&a - &big).complete()), ("b+2^k", (&b + &big).complete())];
                    for (tname, tx) in targets {
                        let r2 = rng.bits(C::ln);
                        let e2 = (pow_signed_big(g, &tx, n) * pow_signed_big(h, &r2, n)).modulo(n);
                        let res = guard(|| [false, true].iter().any(|&wd| transplant::<C>(&pj, &e2, g, n, &a, &b, wd).verify::<C::HashAlg>(g, h, n, &a, &b)));
                        ev.push(json!({"op": "CLRange", "suite": suite, "key": ki, "bases": bname, "width": wname, "x": xname, "case": format!("transplant:{tname}"), "res": b3(res)}));
                    }
                    // one-sided transplants: one half genuine for the target commitment (made against a shifted
                    // interval with the same T and tolerance), the other half carried over from the honest proof
                    if *wname == "2^64" || *wname == "2^8" {
                        for (side, tx, lo, hi) in [("upper", b.clone() + 1, a.clone(), b.clone() + 1), ("lower", a.clone() - 1, a.clone() - 1, b.clone())] {
                            let r2 = rng.bits(C::ln);
                            let e2 = (pow_signed_big(g, &tx, n) * pow_signed_big(h, &r2, n)).modulo(n);
                            let com2 = make_commitment(&e2, &r2);
                            let res = guard(|| {
                                let genuine = Boudot2000RangeProof::prove::<C::HashAlg>(&tx, &com2, g, h, n, &lo, &hi);
                                let gj = serde_json::to_value(&genuine).unwrap();
                                [false, true].iter().any(|&wd| {
                                    let mut p = serde_json::to_value(transplant::<C>(&pj, &e2, g, n, &a, &b, wd)).unwrap();
                                    // keep the genuine half for the in-range side
                                    let keep = if side == "upper" { ["E_a_1", "E_a_2", "proof_of_square_a", "proof_large_i_a"] } else { ["E_b_1", "E_b_2", "proof_of_square_b", "proof_large_i_b"] };
                                    for k in keep {
                                        p["proof_of_tolerance"][k] = gj["proof_of_tolerance"][k].clone();
                                    }
                                    let pp: Boudot2000RangeProof = serde_json::from_value(p).unwrap();
                                    pp.verify::<C::HashAlg>(g, h, n, &a, &b)
                                })
                            });
                            ev.push(json!({"op": "CLRange", "suite": suite, "key": ki, "bases": bname, "width": wname, "x": xname, "case": format!("transplant:onesided_{side}"), "res": b3(res)}));
                        }
                    }
                    // transplant with degenerate proofs of square: F = 0 (not a unit) makes both sides of the same-secret
                    // equation 0 for d = 1, so the challenge would be the constant H("00")
                    {
                        let tx = b.clone() + 1;
                        let r2 = rng.bits(C::ln);
                        let e2 = (pow_signed_big(g, &tx, n) * pow_signed_big(h, &r2, n)).modulo(n);
                        let c00 = Integer::from_digits(<C::HashAlg as Digest>::digest("00").as_slice(), rug::integer::Order::MsfBe);
                        let res = guard(|| {
                            [false, true].iter().any(|&wd| {
                                let mut p = serde_json::to_value(transplant::<C>(&pj, &e2, g, n, &a, &b, wd)).unwrap();
                                for side in ["a", "b"] {
                                    let e1 = p["proof_of_tolerance"][format!("E_{side}_1")].clone();
                                    p["proof_of_tolerance"][format!("proof_of_square_{side}")] = json!({"E": e1, "F": serde_json::to_value(&Integer::from(0)).unwrap(),
                                        "proof_ss": {"challenge": serde_json::to_value(&c00).unwrap(), "d": serde_json::to_value(&Integer::from(1)).unwrap(),
                                                     "d_1": serde_json::to_value(&Integer::from(0)).unwrap(), "d_2": serde_json::to_value(&Integer::from(0)).unwrap()}});
                                }
                                let pp: Boudot2000RangeProof = serde_json::from_value(p).unwrap();
                                pp.verify::<C::HashAlg>(g, h, n, &a, &b)
                            })
                        });
                        ev.push(json!({"op": "CLRange", "suite": suite, "key": ki, "bases": bname, "width": wname, "x": xname, "case": "transplant:degenerate_squares", "res": b3(res)}));
                    }
                    let rnd = rng.below_int(n).pow_mod(&Integer::from(2), n).unwrap();
                    let res = guard(|| [false, true].iter().any(|&wd| transplant::<C>(&pj, &rnd, g, n, &a, &b, wd).verify::<C::HashAlg>(g, h, n, &a, &b)));
                    ev.push(json!({"op": "CLRange", "suite": suite, "key": ki, "bases": bname, "width": wname, "x": xname, "case": "transplant:random_element", "res": b3(res)}));
                    // shifted proofs: the commitment divided by g^d (a commitment to x - d with the same randomness),
                    // E_a_2 / E_b_2 moved by g^(-+2^T d) and the D_1 responses of the two larger-interval proofs moved by
                    // -+2^T d c; everything is computed from the honest proof and public values
                    for (tname, d) in [("a-1", (x - &a).complete() + 1), ("b+1", (x - &b).complete() - 1), ("a-w", (x - &a).complete() + w), ("b+w", (x - &b).complete() - w)] {
                        let res = guard(|| shifted::<C>(&pj, &d, g, n, &a, &b).verify::<C::HashAlg>(g, h, n, &a, &b));
                        ev.push(json!({"op": "CLRange", "suite": suite, "key": ki, "bases": bname, "width": wname, "x": xname, "case": format!("shifted:{tname}"), "res": b3(res)}));
                    }
                    // every integer leaf +-1
                    let leaves = int_leaves(&pj);
                    ev.push(json!({"op": "CLFormat", "suite": suite, "proof": "range", "n": 0, "U": [], "trusted": false, "paths": leaves.iter().map(|l| norm_path(&l.0)).collect::<Vec<_>>()}));
                    for (path, val) in leaves.iter() {
                        // (+2^128: a change that leaves the low t bits, the part of a hash used as challenge, as they are)
                        for (how, nv) in [("+1", val.clone() + 1), ("-1", val.clone() - 1), ("+2^128", val.clone() + Integer::from(2).pow(128))] {
                            let mut p2 = pj.clone();
                            set_leaf(&mut p2, path, &nv);
                            let res = guard(|| {
                                let pp: Boudot2000RangeProof = serde_json::from_value(p2).unwrap();
                                pp.verify::<C::HashAlg>(g, h, n, &a, &b)
                            });
                            ev.push(json!({"op": "CLLeaf", "suite": suite, "proof": "range", "n": 0, "U": [], "trusted": false, "path": norm_path(path), "path2": norm_path(path), "how": how, "res": b3(res)}));
                        }
                    }
                }
                // the honest prover outside [a, b] must not produce an accepted proof
                for (xname, x) in [("a-1", a.clone() - 1), ("b+1", b.clone() + 1)] {
                    let r = rng.bits(C::ln);
                    let cv = (pow_signed_big(g, &x, n) * pow_signed_big(h, &r, n)).modulo(n);
                    let com = make_commitment(&cv, &r);
                    let res = guard(|| Boudot2000RangeProof::prove::<C::HashAlg>(&x, &com, g, h, n, &a, &b).verify::<C::HashAlg>(g, h, n, &a, &b));
                    ev.push(json!({"op": "CLRange", "suite": suite, "key": ki, "bases": bname, "width": wname, "x": xname, "case": "outside", "res": b3(res)}));
                }
            }
        }
    }
}

/// move an honest range proof for x to the commitment E / g^d (value x - d): only public values are used
fn shifted<C: CLCiphersuite>(pj: &Value, d: &Integer, g: &Integer, n: &Integer, a: &Integer, b: &Integer) -> Boudot2000RangeProof {
    let t = 128u32;
    let tt = 2 * (128u32 + 40u32 + 1) + (b - a).complete().significant_bits();
    let two_t = Integer::from(2).pow(tt);
    let geti = |v: &Value| -> Integer { serde_json::from_value(v.clone()).unwrap() };
    let mut p = pj.clone();
    let e2 = (geti(&pj["E"]) * pow_signed_big(g, &(-d.clone()), n)).modulo(n);
    let eprime = e2.clone().pow_mod(&two_t, n).unwrap();
    let td = (&two_t * d).complete();
    for (side, sign) in [("a", -1i32), ("b", 1i32)] {
        let k2 = format!("E_{side}_2");
        let kp = format!("proof_large_i_{side}");
        let mv = Integer::from(sign) * &td;                       // change of the remainder x_side_2
        let e_2 = (geti(&pj["proof_of_tolerance"][&k2]) * pow_signed_big(g, &mv, n)).modulo(n);
        let c = geti(&pj["proof_of_tolerance"][&kp]["C"]).modulo(&Integer::from(2).pow(t));
        let d1 = geti(&pj["proof_of_tolerance"][&kp]["D_1"]) + mv * c;
        p["proof_of_tolerance"][&k2] = serde_json::to_value(&e_2).unwrap();
        p["proof_of_tolerance"][&kp]["D_1"] = serde_json::to_value(&d1).unwrap();
    }
    p["E"] = serde_json::to_value(&e2).unwrap();
    p["E_prime"] = serde_json::to_value(&eprime).unwrap();
    serde_json::from_value(p).unwrap()
}

/// carry the sub-proofs of an honest range proof over to the commitment value e2:
/// E := e2, E' := e2^(2^T), E_a1 := E_a(e2) / E_a2, E_b1 := E_b(e2) / E_b2, everything else reused
/// (`widen`: the reference points 2^T a, 2^T b moved outwards by 2^(l+t+T/2+1) sqrt(b-a), as the pinned code had them)
fn transplant<C: CLCiphersuite>(pj: &Value, e2: &Integer, g: &Integer, n: &Integer, a: &Integer, b: &Integer, widen: bool) -> Boudot2000RangeProof {
    let (t, l) = (128u32, 40u32);
    let tt = 2 * (t + l + 1) + (b - a).complete().significant_bits();
    let mut p = pj.clone();
    let eprime = e2.clone().pow_mod(&Integer::from(2).pow(tt), n).unwrap();
    let sq = Integer::from((b - a).complete().sqrt_ref());
    let shift = if widen { Integer::from(2).pow(l + t + tt / 2 + 1) * sq } else { Integer::from(0) };
    let aa = Integer::from(2).pow(tt) * a - &shift;
    let bb = Integer::from(2).pow(tt) * b + &shift;
    let ea = (eprime.clone() * pow_signed_big(g, &(-aa), n)).modulo(n);
    let eb = (pow_signed_big(g, &bb, n) * eprime.clone().invert(n).unwrap()).modulo(n);
    let get = |v: &Value, k: &str| -> Integer { serde_json::from_value(v["proof_of_tolerance"][k].clone()).unwrap() };
    let ea2 = get(pj, "E_a_2");
    let eb2 = get(pj, "E_b_2");
    let ea1 = (ea * ea2.invert(n).unwrap()).modulo(n);
    let eb1 = (eb * eb2.invert(n).unwrap()).modulo(n);
    p["E"] = serde_json::to_value(e2).unwrap();
    p["E_prime"] = serde_json::to_value(&eprime).unwrap();
    p["proof_of_tolerance"]["E_a_1"] = serde_json::to_value(&ea1).unwrap();
    p["proof_of_tolerance"]["E_b_1"] = serde_json::to_value(&eb1).unwrap();
    serde_json::from_value(p).unwrap()
}

// ---------------------------------------------------------------------------- C17 / C19
fn drv_leak<C: CLCiphersuite>(keys: &[KeySet], seed: u64, thorough: bool, ev: &mut Vec<Value>)
where
    C::HashAlg: Digest,
{
    let mut rng = Rng::new(seed ^ 0x17);
    let suite = C::SECPARAM * 2;
    let maxn = if thorough { 4 } else { 3 };
    for (ki, ks) in keys.iter().enumerate() {
        for n in 1..=maxn {
            let msgs = attrs::<C>(&mut rng, n);
            let sig = Signature::<CL03<C>>::sign_multiattr(&ks.pk, &ks.sk, &ks.bases, &msgs);
            let (e, _s, v) = sig_parts(sig.cl03Signature());
            let bases_n = Bases(ks.bases.0[..n].to_vec());
            let cpk = CL03CommitmentPublicKey { N: ks.cpk_issuer.N.clone(), h: ks.cpk_issuer.h.clone(), g_bases: ks.cpk_issuer.g_bases[..n].to_vec() };
            // the signature proof with the hidden positions given in descending order and with a position named twice
            // (the responses must be masked whatever the shape of the list)
            // ... and with nothing hidden at all (every attribute disclosed): e and v still have to be masked
            {
                let bases_n2 = Bases(ks.bases.0[..n].to_vec());
                let cpk2 = CL03CommitmentPublicKey { N: ks.cpk_issuer.N.clone(), h: ks.cpk_issuer.h.clone(), g_bases: ks.cpk_issuer.g_bases[..n].to_vec() };
                let mut uls: Vec<Vec<usize>> = vec![vec![]];
                if n >= 2 {
                    uls.push(vec![n - 1, 0]);
                    uls.push(vec![0, n - 1, n - 1]);
                }
                for ul in uls {
                    let pr = guard(|| PoKSignature::<CL03<C>>::proof_gen(sig.cl03Signature(), &cpk2, &ks.pk, &bases_n2, &msgs, &ul));
                    let Ok(proof) = pr else { continue };
                    let pj = serde_json::to_value(&proof).unwrap();
                    let mut uset = ul.clone();
                    uset.sort();
                    uset.dedup();
                    let mut secrets: Vec<(String, Integer)> = uset.iter().map(|&i| (format!("m{i}"), msgs[i].value.clone())).collect();
                    secrets.push(("e".into(), e.clone()));
                    secrets.push(("v".into(), v.clone()));
                    mask_events::<C>("spok", suite, n, &ul, &pj, &secrets, ks, &[], ev);
                }
            }
            for u in subsets(n).into_iter().filter(|u| !u.is_empty()) {
                if !thorough && n == maxn && u.len() == 2 {
                    continue;
                }
                // ---- issuance proof
                verif_hooks::start_recording();
                let commitment = Commitment::<CL03<C>>::commit_with_pk(&msgs, &ks.pk, &ks.bases, Some(&u));
                let zk = ZKPoK::<CL03<C>>::generate_proof(&msgs, commitment.cl03Commitment(), None, &ks.pk, &ks.bases, None, &u);
                let draws = verif_hooks::take_draws();
                verif_hooks::stop_recording();
                let mut lens: std::collections::BTreeMap<u32, usize> = Default::default();
                for d in draws.iter().filter(|d| d.site == "random_bits") {
                    *lens.entry(d.bits).or_default() += 1;
                }
                ev.push(json!({"op": "CLMaskLens", "suite": suite, "proof": "zkpok", "n": n, "U": u, "lens": lens.iter().map(|(k, v)| json!([k, v])).collect::<Vec<_>>()}));
                let zj = serde_json::to_value(&zk).unwrap();
                let mut secrets: Vec<(String, Integer)> = u.iter().map(|&i| (format!("m{i}"), msgs[i].value.clone())).collect();
                secrets.push(("r".into(), commitment.randomness().clone()));
                let pairs: Vec<(&str, Integer, Integer)> = {
                    let mut p: Vec<(&str, Integer, Integer)> = u.iter().map(|&i| ("a_i,b", ks.bases.0[i].clone(), ks.pk.b.clone())).collect();
                    p.push(("a_0,b", ks.bases.0[0].clone(), ks.pk.b.clone()));
                    p
                };
                leak_events::<C>("zkpok", suite, ki, n, &u, &zj, &secrets, &pairs, &ks.pk.N, None, ev);
                // dictionary attack with two candidate values for a hidden attribute
                let cand = [msgs[u[0]].value.clone(), msgs[u[0]].value.clone() + 1];
                let confirmed = dictionary(&zj, &cand, &ks.bases.0[u[0]], &ks.pk.b, &ks.pk.N);
                ev.push(json!({"op": "CLDictionary", "suite": suite, "proof": "zkpok", "n": n, "U": u, "confirmed": confirmed}));
                // responses: challenge recomputed as the verifier does
                // challenge of the multi-secret proof: H(a_i (i in U) || b || C || t)
                let t_ms: Integer = serde_json::from_value(zj["CL03"]["proof_commited_msgs"]["t"].clone()).unwrap();
                let mut s_in = String::new();
                for &i in &u {
                    s_in += &ks.bases.0[i].to_string();
                }
                s_in = s_in + &ks.pk.b.to_string() + &commitment.value().to_string() + &t_ms.to_string();
                let c_ms = Integer::from_digits(<C::HashAlg as Digest>::digest(s_in).as_slice(), rug::integer::Order::MsfBe);
                mask_events::<C>("zkpok", suite, n, &u, &zj, &secrets, ks, &[("proof_commited_msgs:challenge".to_string(), c_ms)], ev);
                // ---- issuance proof with a trusted party's commitment: made by the library (ln-bit randomness),
                //      and made by a party that used a short (256-bit) randomness
                if n <= 2 || thorough {
                    for short in [false, true] {
                        let ctr = if short {
                            let r = rng.bits(256);
                            let mut cv = Integer::from(1);
                            for &i in &u {
                                cv = (cv * pow_signed_big(&ks.cpk_own.g_bases[i], &msgs[i].value, &ks.cpk_own.N)).modulo(&ks.cpk_own.N);
                            }
                            cv = (cv * pow_signed_big(&ks.cpk_own.h, &r, &ks.cpk_own.N)).modulo(&ks.cpk_own.N);
                            make_commitment(&cv, &r)
                        } else {
                            Commitment::<CL03<C>>::commit_with_commitment_pk(&msgs, &ks.cpk_own, Some(&u)).cl03Commitment().clone()
                        };
                        let zt = guard(|| ZKPoK::<CL03<C>>::generate_proof(&msgs, commitment.cl03Commitment(), Some(&ctr), &ks.pk, &ks.bases, Some(&ks.cpk_own), &u));
                        let Ok(zt) = zt else { continue };
                        let ok = guard(|| zt.verify_proof(commitment.cl03Commitment(), Some(&ctr), &ks.pk, &ks.bases, Some(&ks.cpk_own), &u));
                        ev.push(json!({"op": "CLPoK", "suite": suite, "key": ki, "n": n, "U": u, "mismatch": "none", "res": b3(ok)}));
                        let ztj = serde_json::to_value(&zt).unwrap();
                        let t_ms: Integer = serde_json::from_value(ztj["CL03"]["proof_commited_msgs"]["t"].clone()).unwrap();
                        let mut s_in = String::new();
                        for &i in &u {
                            s_in += &ks.bases.0[i].to_string();
                        }
                        s_in = s_in + &ks.pk.b.to_string() + &commitment.value().to_string() + &t_ms.to_string();
                        let c_t = Integer::from_digits(<C::HashAlg as Digest>::digest(s_in).as_slice(), rug::integer::Order::MsfBe);
                        let mut sec_t = secrets.clone();
                        sec_t.push(("r_trusted".into(), ctr.randomness.clone()));
                        mask_events::<C>("zkpok", suite, n, &u, &ztj, &sec_t, ks, &[("proof_commited_msgs:challenge".to_string(), c_t)], ev);
                    }
                }
                // ---- signature proof
                verif_hooks::start_recording();
                let proof = PoKSignature::<CL03<C>>::proof_gen(sig.cl03Signature(), &cpk, &ks.pk, &bases_n, &msgs, &u);
                let draws = verif_hooks::take_draws();
                verif_hooks::stop_recording();
                let mut lens: std::collections::BTreeMap<u32, usize> = Default::default();
                for d in draws.iter().filter(|d| d.site == "random_bits") {
                    *lens.entry(d.bits).or_default() += 1;
                }
                ev.push(json!({"op": "CLMaskLens", "suite": suite, "proof": "spok", "n": n, "U": u, "lens": lens.iter().map(|(k, v)| json!([k, v])).collect::<Vec<_>>()}));
                let pj = serde_json::to_value(&proof).unwrap();
                let mut secrets: Vec<(String, Integer)> = u.iter().map(|&i| (format!("m{i}"), msgs[i].value.clone())).collect();
                secrets.push(("e".into(), e.clone()));
                secrets.push(("v".into(), v.clone()));
                let pairs: Vec<(&str, Integer, Integer)> = (0..n).map(|i| ("g_i,h", cpk.g_bases[i].clone(), cpk.h.clone())).collect();
                leak_events::<C>("spok", suite, ki, n, &u, &pj, &secrets, &pairs, &cpk.N, Some((&v, &cpk.g_bases[0])), ev);
                mask_events::<C>("spok", suite, n, &u, &pj, &secrets, ks, &[], ev);
            }
        }
    }
}

/// a wide credential: 64 + attributes with single hidden positions around the 64 boundary
fn drv_leak_wide<C: CLCiphersuite>(keys: &[KeySet], seed: u64, ev: &mut Vec<Value>)
where
    C::HashAlg: Digest,
{
    let mut rng = Rng::new(seed ^ 0x64);
    let suite = C::SECPARAM * 2;
    let ks = &keys[0];
    let n = 66usize;
    let bases = Bases::generate(&ks.pk, n);
    let cpk = CL03CommitmentPublicKey::generate::<C>(Some(ks.pk.N.clone()), Some(n));
    let msgs: Vec<CL03Message> = (0..n).map(|_| CL03Message::new(rng.bits(C::lm))).collect();
    let sig = Signature::<CL03<C>>::sign_multiattr(&ks.pk, &ks.sk, &bases, &msgs);
    let (e, _s, v) = sig_parts(sig.cl03Signature());
    for u in [vec![63usize], vec![64], vec![0, 65], vec![31, 32, 63]] {
        let revealed: Vec<CL03Message> = (0..n).filter(|i| !u.contains(i)).map(|i| msgs[i].clone()).collect();
        let proof = PoKSignature::<CL03<C>>::proof_gen(sig.cl03Signature(), &cpk, &ks.pk, &bases, &msgs, &u);
        let ok = guard(|| proof.proof_verify(&cpk, &ks.pk, &bases, &revealed, &u, n));
        ev.push(json!({"op": "CLPoK", "suite": suite, "key": 0, "n": n, "U": u, "mismatch": "none", "res": b3(ok)}));
        let pj = serde_json::to_value(&proof).unwrap();
        let mut secrets: Vec<(String, Integer)> = u.iter().map(|&i| (format!("m{i}"), msgs[i].value.clone())).collect();
        secrets.push(("e".into(), e.clone()));
        secrets.push(("v".into(), v.clone()));
        mask_events::<C>("spok", suite, n, &u, &pj, &secrets, ks, &[], ev);
    }
}

/// C17: for every (value, randomness)-shaped pair of the serialised proof and every public base
/// pair: does value = g^x * h^randomness hold for a hidden secret x?  Can v be recovered?
fn leak_events<C: CLCiphersuite>(pname: &str, suite: u32, ki: usize, n: usize, u: &[usize], pj: &Value, secrets: &[(String, Integer)], pairs: &[(&str, Integer, Integer)], modulus: &Integer,
    vrec: Option<(&Integer, &Integer)>, ev: &mut Vec<Value>) {
    // the per-attribute commitments: with the g-part stripped by the witness holder, the randomness parts h^(r_i) are
    // pairwise different and no two cancel (otherwise a quotient / product of two commitment values is a function of
    // two hidden attributes alone)
    {
        let leaves0 = int_leaves(pj);
        let mut parts: Vec<(usize, Integer)> = vec![];
        for (k, &i) in u.iter().enumerate() {
            let path = format!("/CL03/proofs_commited_mi/{k}/commitment/value");
            let (Some(val), Some(m), Some(pair)) = (leaves0.iter().find(|(p, _)| *p == path).map(|x| x.1.clone()), secrets.iter().find(|(sn, _)| *sn == format!("m{i}")).map(|x| x.1.clone()), pairs.get(k)) else { continue };
            parts.push((i, (val * pow_signed_big(&pair.1, &(-m), modulus)).modulo(modulus)));
        }
        let mut hits: Vec<Value> = vec![];
        for a in 0..parts.len() {
            for b in a + 1..parts.len() {
                if parts[a].1 == parts[b].1 || (parts[a].1.clone() * &parts[b].1).modulo(modulus) == 1 {
                    hits.push(json!([parts[a].0, parts[b].0]));
                }
            }
        }
        ev.push(json!({"op": "CLCommitRand", "suite": suite, "proof": pname, "key": ki, "n": n, "U": u, "stripped": parts.len(), "hits": hits}));
    }
    let _ = ki;
    let leaves = int_leaves(pj);
    // (value, randomness) shaped pairs: siblings named value / randomness
    let mut npairs = 0;
    let mut matches = vec![];
    for (path, val) in &leaves {
        if !path.ends_with("/value") {
            continue;
        }
        let rp = format!("{}/randomness", &path[..path.len() - 6]);
        let Some((_, rnd)) = leaves.iter().find(|(p, _)| *p == rp) else { continue };
        npairs += 1;
        for (bname, g, h) in pairs {
            for (sname, x) in secrets {
                let c = (pow_signed_big(g, x, modulus) * pow_signed_big(h, rnd, modulus)).modulo(modulus);
                if &c == val {
                    matches.push(json!({"pathV": norm_path(path), "pathR": norm_path(&rp), "bases": bname, "secret": sname}));
                }
            }
        }
        if let Some((v, g0)) = vrec {
            // v = Cv * g0^(-w)
            let cand = (val.clone() * pow_signed_big(g0, &(-rnd.clone()), modulus)).modulo(modulus);
            if &cand == v {
                matches.push(json!({"pathV": norm_path(path), "pathR": norm_path(&rp), "bases": "g_0", "secret": "v (recovered)"}));
            }
        }
    }
    ev.push(json!({"op": "CLOpenings", "suite": suite, "proof": pname, "n": n, "U": u, "pairs": npairs, "matches": matches}));
}

fn dictionary(pj: &Value, cand: &[Integer], g: &Integer, h: &Integer, n: &Integer) -> bool {
    let leaves = int_leaves(pj);
    for (path, val) in &leaves {
        if !path.ends_with("/value") {
            continue;
        }
        let rp = format!("{}/randomness", &path[..path.len() - 6]);
        let Some((_, rnd)) = leaves.iter().find(|(p, _)| *p == rp) else { continue };
        let hits: Vec<bool> = cand.iter().map(|x| &(pow_signed_big(g, x, n) * pow_signed_big(h, rnd, n)).modulo(n) == val).collect();
        if hits[0] && !hits[1] {
            return true;
        }
    }
    false
}

/// C19: | floor(s / c) - x | and | floor(s / s') - x | as bit lengths, for every response leaf s,
/// every recomputable challenge c and every secret x
fn mask_events<C: CLCiphersuite>(pname: &str, suite: u32, n: usize, u: &[usize], pj: &Value, secrets: &[(String, Integer)], ks: &KeySet, extra: &[(String, Integer)], ev: &mut Vec<Value>)
where
    C::HashAlg: Digest,
{
    let leaves = int_leaves(pj);
    // challenges recomputable from public data
    let mut challenges: Vec<(String, Integer)> = extra.to_vec();
    for (p, v) in &leaves {
        if p.ends_with("/challenge") {
            challenges.push((norm_path(p), v.clone()));
        }
    }
    // nisp2sec challenges: H(g || h || commitment.value || t)
    for (p, t) in &leaves {
        if let Some(prefix) = p.strip_suffix("/value/t") {
            let cv = leaves.iter().find(|(q, _)| *q == format!("{prefix}/commitment/value")).map(|x| x.1.clone());
            if let Some(cv) = cv {
                // base pair candidates: (a_i, b) for every i (issuance) -- try all, keep those reproducing the proof equation
                for a in ks.bases.0.iter().chain(ks.cpk_issuer.g_bases.iter()) {
                    for h in [&ks.pk.b, &ks.cpk_issuer.h] {
                        let s_in = a.to_string() + &h.to_string() + &cv.to_string() + &t.to_string();
                        let c = Integer::from_digits(<C::HashAlg as Digest>::digest(s_in).as_slice(), rug::integer::Order::MsfBe);
                        challenges.push((format!("{}:nisp2sec", norm_path(prefix)), c));
                    }
                }
            }
        }
    }
    let resp: Vec<&(String, Integer)> = leaves.iter().filter(|(p, _)| is_response(p)).collect();
    // per response path: the smallest | floor(s / c) - x | and | floor(s / s') - x | over all challenges / secrets
    let mut per_sc: std::collections::BTreeMap<String, (u32, String)> = Default::default();
    let mut per_ss: std::collections::BTreeMap<String, (u32, String)> = Default::default();
    let mut unblinded: Vec<Value> = vec![];
    let mut diffs: Vec<Value> = vec![];
    for (p, s) in &resp {
        for (_, c) in &challenges {
            if *c == 0 {
                continue;
            }
            let q = s.clone().div_rem_floor(c.clone()).0;
            for (sn, x) in secrets {
                let d: u32 = (q.clone() - x).abs().significant_bits();
                let e = per_sc.entry(norm_path(p)).or_insert((u32::MAX, String::new()));
                if d < e.0 {
                    *e = (d, sn.clone());
                }
                // a response that is a known function of the secret alone: s = x, x * c or x * (1 + c)
                if *s == *x || *s == (x.clone() * c) || *s == (x.clone() * (c.clone() + 1u32)) {
                    unblinded.push(json!({"path": norm_path(p), "secret": sn}));
                }
            }
        }
        for (p2, s2) in &resp {
            if p == p2 || *s2 == 0 {
                continue;
            }
            let q = s.clone().div_rem_floor((*s2).clone()).0;
            for (sn, x) in secrets {
                if *x < 1000 {
                    continue; // tiny attribute values (0, 1) equal small quotients by coincidence
                }
                let d: u32 = (q.clone() - x).abs().significant_bits();
                let key = format!("{} / {}", norm_path(p), norm_path(p2));
                let e = per_ss.entry(key).or_insert((u32::MAX, String::new()));
                if d < e.0 {
                    *e = (d, sn.clone());
                }
            }
            // two responses sharing their blinding: (s - s') = c * (x - x')
            for (_, c) in &challenges {
                if *c == 0 {
                    continue;
                }
                let diff = (*s).clone() - (*s2).clone();
                if diff != 0 && diff.is_divisible(c) {
                    let q = diff / c;
                    for (sn, x) in secrets {
                        for (sn2, x2) in secrets {
                            if sn != sn2 && q == (x.clone() - x2) {
                                diffs.push(json!({"path": norm_path(p), "path2": norm_path(p2), "secrets": [sn, sn2]}));
                            }
                        }
                    }
                }
            }
        }
    }
    // range proofs embedded in the proof: each proof of square answers for isqrt(2^T (x - a)) resp. isqrt(2^T (b - x));
    // what floor(d / c)^2 / 2^T says about the value x the range proof is about
    {
        let get = |path: &str| leaves.iter().find(|(p, _)| p == path).map(|x| x.1.clone());
        let mut targets: Vec<(String, String, Integer, Integer, Integer)> = vec![]; // prefix, secret name, x, a, b
        let sec = |name: &str| secrets.iter().find(|(n2, _)| n2 == name).map(|x| x.1.clone());
        let lm_max: Integer = Integer::from(2).pow(C::lm) - 1u32;
        if let Some(e) = sec("e") {
            targets.push(("/CL03/range_proof_e".into(), "e".into(), e, Integer::from(2).pow(C::le - 1) + 1u32, Integer::from(2).pow(C::le) - 1u32));
        }
        if let Some(r) = sec("r") {
            targets.push(("/CL03/range_proof_r".into(), "r".into(), r, Integer::from(0), Integer::from(2).pow(C::ln) - 1u32));
        }
        for (k, &i) in u.iter().enumerate() {
            if let Some(m) = sec(&format!("m{i}")) {
                targets.push((format!("/CL03/range_proofs_commited_mi/{k}"), format!("m{i}"), m.clone(), Integer::from(0), lm_max.clone()));
                targets.push((format!("/CL03/range_proofs_mi/{k}"), format!("m{i}"), m, Integer::from(0), lm_max.clone()));
            }
        }
        for (prefix, name, x, a, b) in targets {
            let tt = 2 * (128u32 + 40 + 1) + (&b - &a).complete().significant_bits();
            for side in ["a", "b"] {
                let base = format!("{prefix}/proof_of_tolerance/proof_of_square_{side}/proof_ss");
                let (Some(d), Some(c)) = (get(&format!("{base}/d")), get(&format!("{base}/challenge"))) else { continue };
                if c == 0 {
                    continue;
                }
                let q = d.div_rem_floor(c).0;
                let sq = Integer::from(&q * &q) >> tt;
                let est = if side == "a" { (&a + &sq).complete() } else { (&b - &sq).complete() };
                let bits = (est - &x).abs().significant_bits();
                ev.push(json!({"op": "CLRangeMask", "suite": suite, "proof": pname, "n": n, "U": u, "path": norm_path(&format!("{base}/d")), "secret": name, "bits": bits}));
            }
        }
    }
    // implied blindings: for every response s, recomputable challenge c and secret x, the value s - c x (and
    // s + c x).  Two different response leaves with the same implied blinding share it -- also when they
    // belong to two sub-proofs with different challenges: (s - s') / (c - c') would then be the secret
    {
        // (a position named twice in the hidden list yields the same response twice: one value, not two values
        // sharing a blinding; such exact repetitions of a response for the same secret VALUE are skipped -- two
        // attributes may carry the same value, e.g. both the largest one)
        let mut implied: std::collections::HashMap<Integer, (String, String, Integer, Integer)> = Default::default();
        'outer: for (p, s) in &resp {
            for (_, c) in &challenges {
                if *c == 0 {
                    continue;
                }
                for (sn, x) in secrets {
                    if *x < 1000 {
                        continue;
                    }
                    let cx = (c * x).complete();
                    for b in [((*s).clone() - &cx), ((*s).clone() + &cx)] {
                        if b.significant_bits() < 64 {
                            continue;
                        }
                        match implied.get(&b) {
                            Some((p0, sn0, s0, x0)) if p0 != p && !(*s0 == *s && *x0 == *x) => {
                                diffs.push(json!({"path": norm_path(p0), "path2": norm_path(p), "secrets": [sn0, sn], "kind": "implied blinding"}));
                                if diffs.len() > 8 {
                                    break 'outer;
                                }
                            }
                            Some(_) => {}
                            None => {
                                implied.insert(b, (p.clone(), sn.clone(), (*s).clone(), x.clone()));
                            }
                        }
                    }
                }
            }
        }
    }
    for (path, (bits, sn)) in &per_sc {
        ev.push(json!({"op": "CLMask", "suite": suite, "proof": pname, "n": n, "U": u, "kind": "s/c", "bits": (*bits).min(100000), "path": path, "secret": sn}));
    }
    // quotients of two responses: only the ones that come close to a secret are logged one by one
    let mut worst = (u32::MAX, String::new(), String::new());
    for (path, (bits, sn)) in &per_ss {
        if *bits < 64 {
            ev.push(json!({"op": "CLMask", "suite": suite, "proof": pname, "n": n, "U": u, "kind": "s/s'", "bits": *bits, "path": path, "secret": sn}));
        }
        if *bits < worst.0 {
            worst = (*bits, path.clone(), sn.clone());
        }
    }
    ev.push(json!({"op": "CLMaskSummary", "suite": suite, "proof": pname, "n": n, "U": u, "responses": resp.len(), "challenges": challenges.len(), "pairs": per_ss.len(), "min_pair_bits": worst.0.min(100000), "min_pair": worst.1}));
    ev.push(json!({"op": "CLUnblinded", "suite": suite, "proof": pname, "n": n, "U": u, "hits": unblinded}));
    ev.push(json!({"op": "CLSharedBlinding", "suite": suite, "proof": pname, "n": n, "U": u, "hits": diffs}));
}

fn is_response(p: &str) -> bool {
    let last = p.rsplit('/').next().unwrap_or("");
    let parent = p.rsplit('/').nth(1).unwrap_or("");
    matches!(last, "s1" | "s2" | "s_1" | "s_2" | "s_3" | "s_4" | "s_6" | "s_7" | "s_8" | "s_9" | "d_1" | "d_2")
        || ((parent == "s1" || parent == "s_5" || parent == "d") && last.parse::<usize>().is_ok())
        || (last == "d" && !p.contains("range") && !p.contains("proof_ss"))
}

/// the production draws of two proofs made from the same inputs on two fresh threads (and twice on one)
fn drv_fresh<C: CLCiphersuite>(keys: &[KeySet], seed: u64, ev: &mut Vec<Value>)
where
    C::HashAlg: Digest,
{
    let mut rng = Rng::new(seed ^ 0x19);
    let suite = C::SECPARAM * 2;
    let ks = &keys[0];
    let msgs = attrs::<C>(&mut rng, 2);
    let sig = Signature::<CL03<C>>::sign_multiattr(&ks.pk, &ks.sk, &ks.bases, &msgs);
    let bases_n = Bases(ks.bases.0[..2].to_vec());
    let cpk = CL03CommitmentPublicKey { N: ks.cpk_issuer.N.clone(), h: ks.cpk_issuer.h.clone(), g_bases: ks.cpk_issuer.g_bases[..2].to_vec() };
    let s_inner = sig.cl03Signature().clone();
    drop(sig);
    let one = || -> Vec<String> {
        verif_hooks::start_recording();
        let _ = PoKSignature::<CL03<C>>::proof_gen(&s_inner, &cpk, &ks.pk, &bases_n, &msgs, &[1]);
        let commitment = Commitment::<CL03<C>>::commit_with_pk(&msgs, &ks.pk, &ks.bases, Some(&[0]));
        let _ = ZKPoK::<CL03<C>>::generate_proof(&msgs, commitment.cl03Commitment(), None, &ks.pk, &ks.bases, None, &[0]);
        let d = verif_hooks::take_draws();
        verif_hooks::stop_recording();
        d.iter().map(|x| hex::encode(&<Sha256 as Digest>::digest(&x.value)[..10])).collect()
    };
    let mut runs: Vec<Vec<String>> = vec![];
    std::thread::scope(|sc| {
        let hs: Vec<_> = (0..3).map(|_| sc.spawn(|| { let mut v = one(); v.extend(one()); v })).collect();
        for h in hs {
            runs.push(h.join().unwrap());
        }
    });
    let all: Vec<&String> = runs.iter().flatten().collect();
    let set: std::collections::BTreeSet<&String> = all.iter().copied().collect();
    ev.push(json!({"op": "CLFresh", "suite": suite, "threads": runs.len(), "draws": all.len(), "distinct": set.len()}));
}

// ---------------------------------------------------------------------------- C18
fn drv_keys<C: CLCiphersuite>(keys: &[KeySet], seed: u64, ev: &mut Vec<Value>)
where
    C::HashAlg: Digest,
{
    let suite = C::SECPARAM * 2;
    for (ki, ks) in keys.iter().enumerate() {
        let (p, q, n) = (&ks.sk.p, &ks.sk.q, &ks.pk.N);
        let half = |x: &Integer| (x.clone() - 1u32) / 2u32;
        let qr = |x: &Integer| *x > 1 && x < n && x.clone().gcd(n) == 1 && jacobi(x, p) == 1 && jacobi(x, q) == 1;
        let mut elems = vec![("b", ks.pk.b.clone()), ("c", ks.pk.c.clone())];
        for (i, a) in ks.bases.0.iter().enumerate() {
            elems.push((if i == 0 { "a_0" } else { "a_i" }, a.clone()));
        }
        let all_qr = elems.iter().all(|(_, x)| qr(x));
        // commitment key over the issuer modulus: residuosity checkable with p, q
        let cq = qr(&ks.cpk_issuer.h) && ks.cpk_issuer.g_bases.iter().all(|g| qr(g));
        let own = &ks.cpk_own;
        let own_range = own.h.clone().gcd(&own.N) == 1 && own.h > 1 && own.h < own.N && own.g_bases.iter().all(|g| *g > 1 && g < &own.N && g.clone().gcd(&own.N) == 1);
        let rt = guard(|| {
            let b = ks.pk.to_bytes::<CL03<C>>();
            let pk2 = CL03PublicKey::from_bytes::<CL03<C>>(&b);
            let sb = ks.sk.to_bytes::<CL03<C>>();
            let sk2 = CL03SecretKey::from_bytes::<CL03<C>>(&sb);
            let j: CL03PublicKey = serde_json::from_str(&serde_json::to_string(&ks.pk).unwrap()).unwrap();
            let j2: CL03SecretKey = serde_json::from_str(&serde_json::to_string(&ks.sk).unwrap()).unwrap();
            let j3: CL03CommitmentPublicKey = serde_json::from_str(&serde_json::to_string(&ks.cpk_own).unwrap()).unwrap();
            pk2 == ks.pk && sk2 == ks.sk && j == ks.pk && j2 == ks.sk && j3 == ks.cpk_own
        });
        ev.push(json!({"op": "CLKeyFacts", "suite": suite, "key": ki, "secparam": C::SECPARAM,
            "n_is_pq": &(p.clone() * q) == n, "p_ne_q": p != q,
            "p_prime": miller_rabin(p, 20), "q_prime": miller_rabin(q, 20), "p_half_prime": miller_rabin(&half(p), 20), "q_half_prime": miller_rabin(&half(q), 20),
            "p_bits": p.significant_bits(), "q_bits": q.significant_bits(),
            "elements_qr": all_qr, "cpk_issuer_qr": cq, "cpk_issuer_modulus_is_issuer": &ks.cpk_issuer.N == n, "cpk_own_in_range": own_range,
            "cpk_own_modulus_bits": own.N.significant_bits(), "cpk_own_not_square": !own.N.is_perfect_square(), "roundtrip": b3(rt)}));
    }
    // random_bits / rand_int
    use zkryptium::utils::random::{rand_int, random_bits};
    let mut ok_bits = true;
    for nb in [2u32, 3, 8, 64, 255, 256, 257, 1024] {
        for _ in 0..50 {
            let x = random_bits(nb);
            ok_bits &= x.significant_bits() == nb;
        }
    }
    let mut seen = std::collections::BTreeSet::new();
    let mut in_range = true;
    for _ in 0..400 {
        let x = rand_int(Integer::from(-2), Integer::from(1));
        in_range &= x >= -2 && x <= 1;
        seen.insert(x.to_i32().unwrap());
    }
    let _ = seed;
    ev.push(json!({"op": "CLRandomFacts", "suite": suite, "random_bits_exact": ok_bits, "rand_int_in_range": in_range, "rand_int_endpoints": seen.contains(&-2) && seen.contains(&1), "rand_int_values": seen.len()}));
}

fn main() {
    let args: Vec<String> = std::env::args().collect();
    if args.len() < 3 {
        eprintln!("usage: zkv-cl <sig|blind|pok|boudot|leak|keys> <out.ndjson> [--keys N] [--thorough] [--suite 1024|2048] [--derivs file] [--leaf-stride N]");
        std::process::exit(2);
    }
    std::panic::set_hook(Box::new(|_| {}));
    let seed: u64 = std::env::var("VERIF_SEED").ok().and_then(|s| s.parse().ok()).unwrap_or(1);
    let (mut nkeys, mut thorough, mut suite, mut derivs, mut stride) = (2usize, false, 1024u32, None::<String>, 5usize);
    let mut i = 3;
    while i < args.len() {
        match args[i].as_str() {
            "--keys" => { nkeys = args[i + 1].parse().unwrap(); i += 2; }
            "--thorough" => { thorough = true; i += 1; }
            "--suite" => { suite = args[i + 1].parse().unwrap(); i += 2; }
            "--derivs" => { derivs = Some(args[i + 1].clone()); i += 2; }
            "--leaf-stride" => { stride = args[i + 1].parse().unwrap(); i += 2; }
            _ => { eprintln!("bad argument {}", args[i]); std::process::exit(2); }
        }
    }
    let nkeys = nkeys.max(2);
    if args[1] == "proto" {
        // zkv-cl proto <report.json> --derivs <cases.ndjson>: replay of the behaviours of MC_clproto.tla
        let cases: Vec<Value> = std::fs::read_to_string(derivs.clone().expect("--derivs cases")).unwrap().lines().filter(|l| !l.trim().is_empty()).map(|l| serde_json::from_str(l).unwrap()).collect();
        let rep = match suite {
            1024 => proto::run::<CL1024Sha256>(&gen_keys::<CL1024Sha256>(nkeys, 5), seed, &cases, 16),
            2048 => proto::run::<CL2048Sha256>(&gen_keys::<CL2048Sha256>(nkeys, 5), seed, &cases, 16),
            _ => { eprintln!("unknown suite"); std::process::exit(2); }
        };
        std::fs::write(&args[2], serde_json::to_string(&rep).unwrap()).unwrap();
        println!("replayed cl cases={} checks={} mismatches={}", rep["cases"], rep["checks"], rep["mismatches"].as_array().unwrap().len());
        return;
    }
    let dv: Vec<Value> = derivs.map(|p| std::fs::read_to_string(p).unwrap().lines().map(|l| serde_json::from_str(l).unwrap()).collect()).unwrap_or_default();
    let mut ev: Vec<Value> = vec![];
    fn go<C: CLCiphersuite>(cmd: &str, nkeys: usize, seed: u64, thorough: bool, dv: &[Value], stride: usize, ev: &mut Vec<Value>)
    where
        C::HashAlg: Digest,
    {
        let keys = gen_keys::<C>(nkeys, 5);
        match cmd {
            "sig" => drv_sig::<C>(&keys, seed, thorough, dv, ev),
            "blind" => drv_blind::<C>(&keys, seed, thorough, stride, ev),
            "pok" => drv_pok::<C>(&keys, seed, thorough, stride, ev),
            "boudot" => drv_boudot::<C>(&keys, seed, thorough, ev),
            "leak" => {
                drv_leak::<C>(&keys, seed, thorough, ev);
                drv_leak_wide::<C>(&keys, seed, ev);
                drv_fresh::<C>(&keys, seed, ev);
            }
            "keys" => drv_keys::<C>(&keys, seed, ev),
            _ => { eprintln!("unknown driver {cmd}"); std::process::exit(2); }
        }
    }
    let _ = Sha256::new();
    match suite {
        1024 => go::<CL1024Sha256>(&args[1], nkeys, seed, thorough, &dv, stride, &mut ev),
        2048 => go::<CL2048Sha256>(&args[1], nkeys, seed, thorough, &dv, stride, &mut ev),
        16 => {
            // toy sizes: key generation facts only
            let keys = gen_keys::<CLToy16Sha256>(nkeys, 3);
            drv_keys::<CLToy16Sha256>(&keys, seed, &mut ev);
        }
        _ => { eprintln!("unknown suite"); std::process::exit(2); }
    }
    let mut out = String::new();
    for e in &ev {
        out.push_str(&serde_json::to_string(e).unwrap());
        out.push('\n');
    }
    std::fs::write(&args[2], out).unwrap();
    println!("recorded cl events={}", ev.len());
    let _ = <CL1024Sha256 as Ciphersuite>::HashAlg::new();
}
