//! Concrete interpretation of the specification (DESIGN §3.2).
//!
//! An implementation of the BBS (draft-08) and Blind BBS (draft-01, with the
//! edits zkryptium documents) operations that is independent of zkryptium:
//! it only uses SHA-256 / SHAKE-256, BLS12-381 arithmetic and hash-to-curve
//! from the primitive crates, its own `expand_message`, and -- for the
//! structure of every hash input and wire encoding -- the field lists exported
//! from `spec/Layouts.tla` (build/layouts.json).  It never calls zkryptium.

use bls12_381_plus::{
    multi_miller_loop, G1Affine, G1Projective, G2Affine, G2Prepared, G2Projective, Scalar,
};
use elliptic_curve::hash2curve::{ExpandMsgXmd, ExpandMsgXof};
use group::{Curve, Group};
use serde::Deserialize;
use sha2::{Digest, Sha256};
use sha3::digest::{ExtendableOutput, Update, XofReader};
use sha3::Shake256;
use std::collections::HashMap;

#[derive(Clone, Copy, PartialEq, Eq, Debug, Hash)]
pub enum Suite {
    Sha,
    Shake,
}
#[derive(Clone, Copy, PartialEq, Eq, Debug, Hash)]
pub enum Iface {
    Plain,
    Blind,
}

impl Suite {
    pub fn name(self) -> &'static str {
        match self {
            Suite::Sha => "sha",
            Suite::Shake => "shake",
        }
    }
    pub fn from_name(s: &str) -> Suite {
        match s {
            "sha" => Suite::Sha,
            "shake" => Suite::Shake,
            _ => panic!("unknown suite {s}"),
        }
    }
    pub fn all() -> [Suite; 2] {
        [Suite::Sha, Suite::Shake]
    }
}
impl Iface {
    pub fn name(self) -> &'static str {
        match self {
            Iface::Plain => "plain",
            Iface::Blind => "blind",
        }
    }
    pub fn from_name(s: &str) -> Iface {
        match s {
            "plain" => Iface::Plain,
            "blind" => Iface::Blind,
            _ => panic!("unknown iface {s}"),
        }
    }
}

// ---------------------------------------------------------------- layouts

#[derive(Deserialize, Clone, Debug)]
pub struct Field {
    pub k: String,
    pub n: String,
}
#[derive(Deserialize, Clone, Debug)]
pub struct HashDef {
    pub dst: String,
    pub fields: Vec<Field>,
}
#[derive(Deserialize, Clone, Debug)]
pub struct Layouts {
    pub hashes: HashMap<String, HashDef>,
    pub wires: HashMap<String, Vec<Field>>,
    pub suite_id: HashMap<String, String>,
    pub iface_prefix: HashMap<String, String>,
    pub api_suffix: String,
    pub blind_gen_prefix: String,
}

#[derive(Clone, Debug)]
pub enum Val {
    U64(u64),
    Oct(Vec<u8>),
    Pk(G2Projective),
    Pt(G1Projective),
    Pts(Vec<G1Projective>),
    Sc(Scalar),
    Scs(Vec<Scalar>),
    Pairs(Vec<(u64, Scalar)>),
}

pub type Env<'a> = Vec<(&'a str, Val)>;

fn lookup<'a>(env: &'a Env, n: &str) -> &'a Val {
    env.iter()
        .find(|(k, _)| *k == n)
        .map(|(_, v)| v)
        .unwrap_or_else(|| panic!("layout field {n} missing from environment"))
}

pub fn i2osp(x: u64, w: usize) -> Vec<u8> {
    let be = x.to_be_bytes();
    if w >= 8 {
        let mut v = vec![0u8; w - 8];
        v.extend_from_slice(&be);
        v
    } else {
        assert!(x >> (8 * w) == 0, "i2osp overflow");
        be[8 - w..].to_vec()
    }
}

pub fn pt_bytes(p: &G1Projective) -> [u8; 48] {
    p.to_affine().to_compressed()
}
pub fn pk_bytes(p: &G2Projective) -> [u8; 96] {
    p.to_affine().to_compressed()
}
pub fn sc_bytes(s: &Scalar) -> [u8; 32] {
    s.to_be_bytes()
}

pub fn build(fields: &[Field], env: &Env) -> Vec<u8> {
    let mut out = Vec::new();
    for f in fields {
        match f.k.as_str() {
            "lit" => out.extend_from_slice(f.n.as_bytes()),
            "oct" => match lookup(env, &f.n) {
                Val::Oct(b) => out.extend_from_slice(b),
                v => panic!("field {} expects oct, got {:?}", f.n, v),
            },
            "u64" => match lookup(env, &f.n) {
                Val::U64(x) => out.extend_from_slice(&i2osp(*x, 8)),
                v => panic!("field {} expects u64, got {:?}", f.n, v),
            },
            "len64" => match lookup(env, &f.n) {
                Val::Oct(b) => out.extend_from_slice(&i2osp(b.len() as u64, 8)),
                v => panic!("field {} expects oct, got {:?}", f.n, v),
            },
            "len16" => match lookup(env, &f.n) {
                Val::Oct(b) => out.extend_from_slice(&i2osp(b.len() as u64, 2)),
                v => panic!("field {} expects oct, got {:?}", f.n, v),
            },
            "pk" => match lookup(env, &f.n) {
                Val::Pk(p) => out.extend_from_slice(&pk_bytes(p)),
                v => panic!("field {} expects pk, got {:?}", f.n, v),
            },
            "pt" => match lookup(env, &f.n) {
                Val::Pt(p) => out.extend_from_slice(&pt_bytes(p)),
                v => panic!("field {} expects pt, got {:?}", f.n, v),
            },
            "pts" => match lookup(env, &f.n) {
                Val::Pts(ps) => ps.iter().for_each(|p| out.extend_from_slice(&pt_bytes(p))),
                v => panic!("field {} expects pts, got {:?}", f.n, v),
            },
            "sc" => match lookup(env, &f.n) {
                Val::Sc(s) => out.extend_from_slice(&sc_bytes(s)),
                v => panic!("field {} expects sc, got {:?}", f.n, v),
            },
            "scs" => match lookup(env, &f.n) {
                Val::Scs(ss) => ss.iter().for_each(|s| out.extend_from_slice(&sc_bytes(s))),
                v => panic!("field {} expects scs, got {:?}", f.n, v),
            },
            "pairs" => match lookup(env, &f.n) {
                Val::Pairs(ps) => ps.iter().for_each(|(i, s)| {
                    out.extend_from_slice(&i2osp(*i, 8));
                    out.extend_from_slice(&sc_bytes(s));
                }),
                v => panic!("field {} expects pairs, got {:?}", f.n, v),
            },
            k => panic!("unknown field kind {k}"),
        }
    }
    out
}

// ---------------------------------------------------- expand_message (RFC 9380)

/// RFC 9380, 5.3.3: a DST longer than 255 octets is replaced by H("H2C-OVERSIZE-DST-" || DST)
fn xmd_dst(dst: &[u8]) -> Vec<u8> {
    if dst.len() <= 255 {
        return dst.to_vec();
    }
    let mut h = Sha256::new();
    Digest::update(&mut h, b"H2C-OVERSIZE-DST-");
    Digest::update(&mut h, dst);
    h.finalize().to_vec()
}
fn xof_dst(dst: &[u8]) -> Vec<u8> {
    if dst.len() <= 255 {
        return dst.to_vec();
    }
    let mut h = Shake256::default();
    h.update(b"H2C-OVERSIZE-DST-");
    h.update(dst);
    let mut out = vec![0u8; 32]; // ceil(2 k / 8), k = 128
    h.finalize_xof().read(&mut out);
    out
}

pub fn expand_xmd_sha256(msg: &[u8], dst: &[u8], len: usize) -> Vec<u8> {
    let dst = &xmd_dst(dst)[..];
    assert!(dst.len() <= 255 && len <= 65535);
    let ell = (len + 31) / 32;
    assert!(ell <= 255);
    let mut dst_prime = dst.to_vec();
    dst_prime.push(dst.len() as u8);
    let mut h = Sha256::new();
    Digest::update(&mut h, [0u8; 64]);
    Digest::update(&mut h, msg);
    Digest::update(&mut h, i2osp(len as u64, 2));
    Digest::update(&mut h, [0u8]);
    Digest::update(&mut h, &dst_prime);
    let b0 = h.finalize();
    let mut out = Vec::with_capacity(ell * 32);
    let mut prev = {
        let mut h = Sha256::new();
        Digest::update(&mut h, b0);
        Digest::update(&mut h, [1u8]);
        Digest::update(&mut h, &dst_prime);
        h.finalize()
    };
    out.extend_from_slice(&prev);
    for i in 2..=ell {
        let x: Vec<u8> = b0.iter().zip(prev.iter()).map(|(a, b)| a ^ b).collect();
        let mut h = Sha256::new();
        Digest::update(&mut h, &x);
        Digest::update(&mut h, [i as u8]);
        Digest::update(&mut h, &dst_prime);
        prev = h.finalize();
        out.extend_from_slice(&prev);
    }
    out.truncate(len);
    out
}

pub fn expand_xof_shake256(msg: &[u8], dst: &[u8], len: usize) -> Vec<u8> {
    let dst = &xof_dst(dst)[..];
    assert!(dst.len() <= 255 && len <= 65535);
    let mut h = Shake256::default();
    h.update(msg);
    h.update(&i2osp(len as u64, 2));
    h.update(dst);
    h.update(&[dst.len() as u8]);
    let mut out = vec![0u8; len];
    h.finalize_xof().read(&mut out);
    out
}

// ------------------------------------------------------------------ the reference

pub struct Ref {
    pub lay: Layouts,
}

#[derive(Clone, Debug, PartialEq, Eq)]
pub struct RSig {
    pub a: G1Projective,
    pub e: Scalar,
}
#[derive(Clone, Debug, PartialEq, Eq)]
pub struct RProof {
    pub abar: G1Projective,
    pub bbar: G1Projective,
    pub d: G1Projective,
    pub e_cap: Scalar,
    pub r1_cap: Scalar,
    pub r3_cap: Scalar,
    pub m_cap: Vec<Scalar>,
    pub challenge: Scalar,
}
#[derive(Clone, Debug, PartialEq, Eq)]
pub struct RCommit {
    pub c: G1Projective,
    pub s_cap: Scalar,
    pub m_cap: Vec<Scalar>,
    pub challenge: Scalar,
}

#[derive(Clone, Debug, PartialEq, Eq)]
pub enum RErr {
    Invalid(&'static str),
}
pub type RRes<T> = Result<T, RErr>;

pub fn scalar_from_be(b: &[u8]) -> Option<Scalar> {
    let a: [u8; 32] = b.try_into().ok()?;
    Option::<Scalar>::from(Scalar::from_be_bytes(&a))
}
pub fn g1_from(b: &[u8]) -> Option<G1Projective> {
    let a: [u8; 48] = b.try_into().ok()?;
    Option::<G1Affine>::from(G1Affine::from_compressed(&a)).map(G1Projective::from)
}
pub fn g2_from(b: &[u8]) -> Option<G2Projective> {
    let a: [u8; 96] = b.try_into().ok()?;
    Option::<G2Affine>::from(G2Affine::from_compressed(&a)).map(G2Projective::from)
}

impl Ref {
    pub fn load(path: &str) -> Ref {
        let s = std::fs::read_to_string(path).unwrap_or_else(|e| panic!("cannot read {path}: {e}"));
        Ref {
            lay: serde_json::from_str(&s).expect("layouts.json malformed"),
        }
    }

    pub fn api_id(&self, s: Suite, i: Iface) -> Vec<u8> {
        let mut v = self.lay.suite_id[s.name()].clone().into_bytes();
        v.extend_from_slice(self.lay.iface_prefix[i.name()].as_bytes());
        v.extend_from_slice(self.lay.api_suffix.as_bytes());
        v
    }
    pub fn blind_gen_api(&self, s: Suite) -> Vec<u8> {
        let mut v = self.lay.blind_gen_prefix.clone().into_bytes();
        v.extend_from_slice(&self.api_id(s, Iface::Blind));
        v
    }

    pub fn expand(&self, s: Suite, msg: &[u8], dst: &[u8], len: usize) -> Vec<u8> {
        match s {
            Suite::Sha => expand_xmd_sha256(msg, dst, len),
            Suite::Shake => expand_xof_shake256(msg, dst, len),
        }
    }
    pub fn h2s(&self, s: Suite, msg: &[u8], dst: &[u8]) -> RRes<Scalar> {
        if dst.len() > 255 {
            return Err(RErr::Invalid("dst > 255"));
        }
        let u = self.expand(s, msg, dst, 48);
        Ok(Scalar::from_okm(&u.try_into().unwrap()))
    }
    fn h2c(&self, s: Suite, msg: &[u8], dst: &[u8]) -> G1Projective {
        match s {
            Suite::Sha => G1Projective::hash::<ExpandMsgXmd<Sha256>>(msg, dst),
            Suite::Shake => G1Projective::hash::<ExpandMsgXof<Shake256>>(msg, dst),
        }
    }
    fn dst(&self, api: &[u8], name: &str) -> Vec<u8> {
        let mut v = api.to_vec();
        v.extend_from_slice(self.lay.hashes[name].dst.as_bytes());
        v
    }
    fn hash_layout(&self, s: Suite, api: &[u8], name: &str, env: &Env) -> RRes<Scalar> {
        let inp = build(&self.lay.hashes[name].fields, env);
        self.h2s(s, &inp, &self.dst(api, name))
    }

    pub fn p1(&self, s: Suite) -> G1Projective {
        // P1 of the ciphersuite = create_generators-style derivation with the
        // fixed "BP_MESSAGE_GENERATOR_SEED" seed (draft-08, section 7.1 / 7.2).
        let id = self.lay.suite_id[s.name()].as_bytes();
        let api = [id, self.lay.api_suffix.as_bytes()].concat();
        let seed_dst = [&api[..], b"SIG_GENERATOR_SEED_"].concat();
        let gen_dst = [&api[..], b"SIG_GENERATOR_DST_"].concat();
        let gen_seed = [&api[..], b"BP_MESSAGE_GENERATOR_SEED"].concat();
        let mut v = self.expand(s, &gen_seed, &seed_dst, 48);
        v.extend_from_slice(&i2osp(1, 8));
        let v = self.expand(s, &v, &seed_dst, 48);
        self.h2c(s, &v, &gen_dst)
    }

    /// key_gen: Err for ikm < 32, key_info > 65535, dst > 255.
    pub fn keygen(&self, s: Suite, ikm: &[u8], key_info: &[u8], key_dst: Option<&[u8]>) -> RRes<Scalar> {
        if ikm.len() < 32 {
            return Err(RErr::Invalid("ikm < 32"));
        }
        if key_info.len() > 65535 {
            return Err(RErr::Invalid("key_info > 65535"));
        }
        let api = self.api_id(s, Iface::Plain);
        let dflt = self.dst(&api, "keygen");
        let dst = key_dst.unwrap_or(&dflt);
        let env: Env = vec![("ikm", Val::Oct(ikm.to_vec())), ("key_info", Val::Oct(key_info.to_vec()))];
        let inp = build(&self.lay.hashes["keygen"].fields, &env);
        self.h2s(s, &inp, dst)
    }
    pub fn sk_to_pk(&self, sk: &Scalar) -> G2Projective {
        G2Projective::GENERATOR * sk
    }

    /// generators(api, n) -- prefix-consistent by construction.
    pub fn generators(&self, s: Suite, api: &[u8], n: usize) -> Vec<G1Projective> {
        let seed_dst = self.dst(api, "gen_seed");
        let gen_dst = self.dst(api, "gen_point");
        let env: Env = vec![("api", Val::Oct(api.to_vec()))];
        let seed = build(&self.lay.hashes["gen_seed"].fields, &env);
        let mut v = self.expand(s, &seed, &seed_dst, 48);
        let mut out = Vec::with_capacity(n);
        for i in 1..=n {
            let env: Env = vec![("v", Val::Oct(v.clone())), ("i", Val::U64(i as u64))];
            let inp = build(&self.lay.hashes["gen_iter"].fields, &env);
            v = self.expand(s, &inp, &self.dst(api, "gen_iter"), 48);
            let env: Env = vec![("v", Val::Oct(v.clone()))];
            let inp = build(&self.lay.hashes["gen_point"].fields, &env);
            out.push(self.h2c(s, &inp, &gen_dst));
        }
        out
    }

    pub fn msg_scalar(&self, s: Suite, api: &[u8], msg: &[u8]) -> Scalar {
        let env: Env = vec![("msg", Val::Oct(msg.to_vec()))];
        self.hash_layout(s, api, "map_msg", &env).unwrap()
    }
    pub fn msg_scalars(&self, s: Suite, api: &[u8], msgs: &[Vec<u8>]) -> Vec<Scalar> {
        msgs.iter().map(|m| self.msg_scalar(s, api, m)).collect()
    }

    pub fn domain(&self, s: Suite, api: &[u8], pk: &G2Projective, q1: &G1Projective, h: &[G1Projective], hdr: &[u8]) -> Scalar {
        let env: Env = vec![
            ("pk", Val::Pk(*pk)),
            ("L", Val::U64(h.len() as u64)),
            ("Q1", Val::Pt(*q1)),
            ("H", Val::Pts(h.to_vec())),
            ("api", Val::Oct(api.to_vec())),
            ("hdr", Val::Oct(hdr.to_vec())),
        ];
        self.hash_layout(s, api, "domain", &env).unwrap()
    }

    /// B = P1 + Q1*domain + sum H_i * m_i
    fn b_point(&self, s: Suite, q1: &G1Projective, dom: &Scalar, h: &[G1Projective], m: &[Scalar]) -> G1Projective {
        let mut b = self.p1(s) + q1 * dom;
        for (hi, mi) in h.iter().zip(m.iter()) {
            b += hi * mi;
        }
        b
    }

    /// core_sign over message scalars with the given generator list (Q1, H_1..H_L).
    pub fn core_sign(&self, s: Suite, api: &[u8], sk: &Scalar, pk: &G2Projective, gens: &[G1Projective], hdr: &[u8], m: &[Scalar]) -> RRes<RSig> {
        if gens.len() != m.len() + 1 {
            return Err(RErr::Invalid("generator count"));
        }
        let (q1, h) = (&gens[0], &gens[1..]);
        let dom = self.domain(s, api, pk, q1, h, hdr);
        let env: Env = vec![("sk", Val::Sc(*sk)), ("msgs", Val::Scs(m.to_vec())), ("domain", Val::Sc(dom))];
        let e = self.hash_layout(s, api, "sig_e", &env)?;
        let b = self.b_point(s, q1, &dom, h, m);
        let inv = Option::<Scalar>::from((sk + e).invert()).ok_or(RErr::Invalid("sk+e = 0"))?;
        let a = b * inv;
        if bool::from(a.is_identity()) {
            return Err(RErr::Invalid("A = identity"));
        }
        Ok(RSig { a, e })
    }
    pub fn sign(&self, s: Suite, sk: &Scalar, pk: &G2Projective, hdr: &[u8], msgs: &[Vec<u8>]) -> RRes<RSig> {
        let api = self.api_id(s, Iface::Plain);
        let m = self.msg_scalars(s, &api, msgs);
        let gens = self.generators(s, &api, msgs.len() + 1);
        self.core_sign(s, &api, sk, pk, &gens, hdr, &m)
    }

    pub fn core_verify(&self, s: Suite, api: &[u8], pk: &G2Projective, sig: &RSig, gens: &[G1Projective], hdr: &[u8], m: &[Scalar]) -> bool {
        if gens.len() != m.len() + 1 {
            return false;
        }
        let (q1, h) = (&gens[0], &gens[1..]);
        let dom = self.domain(s, api, pk, q1, h, hdr);
        let b = self.b_point(s, q1, &dom, h, m);
        let a2 = pk + G2Projective::GENERATOR * sig.e;
        let t1 = (&sig.a.to_affine(), &G2Prepared::from(a2.to_affine()));
        let t2 = (&b.to_affine(), &G2Prepared::from(-G2Affine::generator()));
        bool::from(multi_miller_loop(&[t1, t2]).final_exponentiation().is_identity())
    }
    pub fn verify(&self, s: Suite, pk: &G2Projective, sig: &RSig, hdr: &[u8], msgs: &[Vec<u8>]) -> bool {
        let api = self.api_id(s, Iface::Plain);
        let m = self.msg_scalars(s, &api, msgs);
        let gens = self.generators(s, &api, msgs.len() + 1);
        self.core_verify(s, &api, pk, sig, &gens, hdr, &m)
    }

    pub fn update(&self, s: Suite, sk: &Scalar, sig: &RSig, old: &[u8], new: &[u8], idx: usize, n: usize) -> RRes<RSig> {
        if idx >= n {
            return Err(RErr::Invalid("index out of range"));
        }
        let api = self.api_id(s, Iface::Plain);
        let gens = self.generators(s, &api, idx + 2);
        let hi = gens[idx + 1];
        let ske = sk + sig.e;
        let b = sig.a * ske - hi * self.msg_scalar(s, &api, old) + hi * self.msg_scalar(s, &api, new);
        let inv = Option::<Scalar>::from(ske.invert()).ok_or(RErr::Invalid("sk+e = 0"))?;
        let a = b * inv;
        if bool::from(a.is_identity()) {
            return Err(RErr::Invalid("A = identity"));
        }
        Ok(RSig { a, e: sig.e })
    }

    // ---- proofs ------------------------------------------------------------

    pub fn challenge(&self, s: Suite, api: &[u8], disc: &[(u64, Scalar)], abar: &G1Projective, bbar: &G1Projective, d: &G1Projective, t1: &G1Projective, t2: &G1Projective, dom: &Scalar, ph: &[u8]) -> Scalar {
        let env: Env = vec![
            ("R", Val::U64(disc.len() as u64)),
            ("disc", Val::Pairs(disc.to_vec())),
            ("Abar", Val::Pt(*abar)),
            ("Bbar", Val::Pt(*bbar)),
            ("D", Val::Pt(*d)),
            ("T1", Val::Pt(*t1)),
            ("T2", Val::Pt(*t2)),
            ("domain", Val::Sc(*dom)),
            ("ph", Val::Oct(ph.to_vec())),
        ];
        self.hash_layout(s, api, "challenge", &env).unwrap()
    }

    /// core_proof_gen with explicit random scalars (r1, r2, e~, r1~, r3~, m~_1..U).
    /// `disc` is sorted and duplicate free, every index < m.len().
    pub fn core_proof_gen(&self, s: Suite, api: &[u8], pk: &G2Projective, sig: &RSig, gens: &[G1Projective], hdr: &[u8], ph: &[u8], m: &[Scalar], disc: &[usize], rnd: &[Scalar]) -> RRes<RProof> {
        let l = m.len();
        if gens.len() != l + 1 {
            return Err(RErr::Invalid("generator count"));
        }
        if disc.iter().any(|&i| i >= l) {
            return Err(RErr::Invalid("index"));
        }
        let und: Vec<usize> = (0..l).filter(|i| !disc.contains(i)).collect();
        let u = und.len();
        if rnd.len() != 5 + u {
            return Err(RErr::Invalid("random scalar count"));
        }
        let (q1, h) = (&gens[0], &gens[1..]);
        let dom = self.domain(s, api, pk, q1, h, hdr);
        let b = self.b_point(s, q1, &dom, h, m);
        let (r1, r2, et, r1t, r3t) = (rnd[0], rnd[1], rnd[2], rnd[3], rnd[4]);
        let mt = &rnd[5..];
        let d = b * r2;
        let abar = sig.a * (r1 * r2);
        let bbar = d * r1 - abar * sig.e;
        let t1 = abar * et + d * r1t;
        let mut t2 = d * r3t;
        for (j, &i) in und.iter().enumerate() {
            t2 += h[i] * mt[j];
        }
        let dpairs: Vec<(u64, Scalar)> = disc.iter().map(|&i| (i as u64, m[i])).collect();
        let c = self.challenge(s, api, &dpairs, &abar, &bbar, &d, &t1, &t2, &dom, ph);
        let r3 = Option::<Scalar>::from(r2.invert()).ok_or(RErr::Invalid("r2 = 0"))?;
        Ok(RProof {
            abar,
            bbar,
            d,
            e_cap: et + sig.e * c,
            r1_cap: r1t - r1 * c,
            r3_cap: r3t - r3 * c,
            m_cap: und.iter().enumerate().map(|(j, &i)| mt[j] + m[i] * c).collect(),
            challenge: c,
        })
    }

    /// core_proof_verify; `disc` = sorted, duplicate-free (index, scalar) pairs.
    /// `strict_identity`: reject identity Abar/Bbar/D as draft-08 octets_to_proof does.
    pub fn core_proof_verify(&self, s: Suite, api: &[u8], pk: &G2Projective, p: &RProof, gens: &[G1Projective], hdr: &[u8], ph: &[u8], disc: &[(usize, Scalar)]) -> bool {
        let u = p.m_cap.len();
        let r = disc.len();
        let l = u + r;
        if disc.iter().any(|(i, _)| *i >= l) {
            return false;
        }
        if gens.len() != l + 1 {
            return false;
        }
        if bool::from(p.abar.is_identity()) || bool::from(p.bbar.is_identity()) || bool::from(p.d.is_identity()) {
            return false;
        }
        let (q1, h) = (&gens[0], &gens[1..]);
        let und: Vec<usize> = (0..l).filter(|i| !disc.iter().any(|(j, _)| j == i)).collect();
        let dom = self.domain(s, api, pk, q1, h, hdr);
        let t1 = p.bbar * p.challenge + p.abar * p.e_cap + p.d * p.r1_cap;
        let mut bv = self.p1(s) + q1 * dom;
        for (i, m) in disc {
            bv += h[*i] * m;
        }
        let mut t2 = bv * p.challenge + p.d * p.r3_cap;
        for (j, &i) in und.iter().enumerate() {
            t2 += h[i] * p.m_cap[j];
        }
        let dpairs: Vec<(u64, Scalar)> = disc.iter().map(|(i, m)| (*i as u64, *m)).collect();
        let c = self.challenge(s, api, &dpairs, &p.abar, &p.bbar, &p.d, &t1, &t2, &dom, ph);
        if c != p.challenge {
            return false;
        }
        let t1 = (&p.abar.to_affine(), &G2Prepared::from(pk.to_affine()));
        let t2 = (&p.bbar.to_affine(), &G2Prepared::from(-G2Affine::generator()));
        bool::from(multi_miller_loop(&[t1, t2]).final_exponentiation().is_identity())
    }

    pub fn proof_gen(&self, s: Suite, pk: &G2Projective, sig: &RSig, hdr: &[u8], ph: &[u8], msgs: &[Vec<u8>], disc: &[usize], rnd: &[Scalar]) -> RRes<RProof> {
        let api = self.api_id(s, Iface::Plain);
        let m = self.msg_scalars(s, &api, msgs);
        let gens = self.generators(s, &api, msgs.len() + 1);
        let mut d = disc.to_vec();
        d.sort();
        d.dedup();
        self.core_proof_gen(s, &api, pk, sig, &gens, hdr, ph, &m, &d, rnd)
    }
    pub fn proof_verify(&self, s: Suite, pk: &G2Projective, p: &RProof, hdr: &[u8], ph: &[u8], dmsgs: &[Vec<u8>], didx: &[usize]) -> bool {
        let api = self.api_id(s, Iface::Plain);
        let mut d = didx.to_vec();
        d.sort();
        d.dedup();
        if d.len() != dmsgs.len() {
            return false;
        }
        let m = self.msg_scalars(s, &api, dmsgs);
        let gens = self.generators(s, &api, p.m_cap.len() + d.len() + 1);
        let disc: Vec<(usize, Scalar)> = d.into_iter().zip(m.into_iter()).collect();
        self.core_proof_verify(s, &api, pk, p, &gens, hdr, ph, &disc)
    }

    // ---- blind ---------------------------------------------------------------

    /// commit with explicit random scalars (secret_prover_blind, s~, m~_1..M)
    pub fn commit(&self, s: Suite, cmsgs: &[Vec<u8>], rnd: &[Scalar]) -> RRes<(RCommit, Scalar)> {
        let api = self.api_id(s, Iface::Blind);
        let m = self.msg_scalars(s, &api, cmsgs);
        let mm = m.len();
        if rnd.len() != mm + 2 {
            return Err(RErr::Invalid("random scalar count"));
        }
        let bg = self.generators(s, &self.blind_gen_api(s), mm + 1);
        let (blind, st, mt) = (rnd[0], rnd[1], &rnd[2..]);
        let mut c = bg[0] * blind;
        let mut cbar = bg[0] * st;
        for i in 0..mm {
            c += bg[i + 1] * m[i];
            cbar += bg[i + 1] * mt[i];
        }
        let env: Env = vec![("M", Val::U64(mm as u64)), ("bgens", Val::Pts(bg.clone())), ("C", Val::Pt(c)), ("Cbar", Val::Pt(cbar))];
        let ch = self.hash_layout(s, &api, "blind_challenge", &env)?;
        Ok((
            RCommit {
                c,
                s_cap: st + blind * ch,
                m_cap: (0..mm).map(|i| mt[i] + m[i] * ch).collect(),
                challenge: ch,
            },
            blind,
        ))
    }
    pub fn commit_verify(&self, s: Suite, c: &RCommit) -> bool {
        let api = self.api_id(s, Iface::Blind);
        let mm = c.m_cap.len();
        let bg = self.generators(s, &self.blind_gen_api(s), mm + 1);
        let mut cbar = bg[0] * c.s_cap;
        for i in 0..mm {
            cbar += bg[i + 1] * c.m_cap[i];
        }
        cbar -= c.c * c.challenge;
        let env: Env = vec![("M", Val::U64(mm as u64)), ("bgens", Val::Pts(bg.clone())), ("C", Val::Pt(c.c)), ("Cbar", Val::Pt(cbar))];
        self.hash_layout(s, &api, "blind_challenge", &env).map(|x| x == c.challenge).unwrap_or(false)
    }

    /// the generator list a blind signature over (L signer messages, M committed
    /// messages [None = no commitment]) is verified with:
    ///   Q1, H_1..H_L, Q2, J_1..J_M         (message slots: msgs, blind, cmsgs)
    pub fn blind_gens(&self, s: Suite, l: usize, m: usize) -> Vec<G1Projective> {
        let api = self.api_id(s, Iface::Blind);
        let mut g = self.generators(s, &api, l + 1);
        g.extend(self.generators(s, &self.blind_gen_api(s), m + 1));
        g
    }

    /// blind_sign: `commit` = None (no commitment) or the validated commitment.
    pub fn blind_sign(&self, s: Suite, sk: &Scalar, pk: &G2Projective, commit: Option<&RCommit>, hdr: &[u8], msgs: &[Vec<u8>]) -> RRes<RSig> {
        let api = self.api_id(s, Iface::Blind);
        let l = msgs.len();
        let (cpt, mm) = match commit {
            None => (G1Projective::IDENTITY, 0),
            Some(c) => {
                if !self.commit_verify(s, c) {
                    return Err(RErr::Invalid("commitment proof"));
                }
                (c.c, c.m_cap.len())
            }
        };
        let m = self.msg_scalars(s, &api, msgs);
        let g = self.blind_gens(s, l, mm);
        let (q1, h) = (&g[0], &g[1..]);
        let mut b = self.p1(s);
        for i in 0..l {
            b += h[i] * m[i];
        }
        b += cpt;
        if bool::from(b.is_identity()) {
            return Err(RErr::Invalid("B = identity"));
        }
        let dom = self.domain(s, &api, pk, q1, h, hdr);
        let b = b + q1 * dom;
        let env: Env = vec![("sk", Val::Sc(*sk)), ("B", Val::Pt(b))];
        let e = self.hash_layout(s, &api, "blind_sig_e", &env)?;
        let inv = Option::<Scalar>::from((sk + e).invert()).ok_or(RErr::Invalid("sk+e = 0"))?;
        Ok(RSig { a: b * inv, e })
    }

    pub fn blind_verify(&self, s: Suite, pk: &G2Projective, sig: &RSig, hdr: &[u8], msgs: &[Vec<u8>], cmsgs: &[Vec<u8>], blind: &Scalar) -> bool {
        let api = self.api_id(s, Iface::Blind);
        let mut m = self.msg_scalars(s, &api, msgs);
        m.push(*blind);
        m.extend(self.msg_scalars(s, &api, cmsgs));
        let g = self.blind_gens(s, msgs.len(), cmsgs.len());
        self.core_verify(s, &api, pk, sig, &g, hdr, &m)
    }

    pub fn blind_proof_gen(&self, s: Suite, pk: &G2Projective, sig: &RSig, hdr: &[u8], ph: &[u8], msgs: &[Vec<u8>], cmsgs: &[Vec<u8>], disc: &[usize], cdisc: &[usize], blind: &Scalar, rnd: &[Scalar]) -> RRes<RProof> {
        let api = self.api_id(s, Iface::Blind);
        let l = msgs.len();
        if disc.iter().any(|&i| i >= l) || cdisc.iter().any(|&j| j >= cmsgs.len()) {
            return Err(RErr::Invalid("index"));
        }
        let mut m = self.msg_scalars(s, &api, msgs);
        m.push(*blind);
        m.extend(self.msg_scalars(s, &api, cmsgs));
        let g = self.blind_gens(s, l, cmsgs.len());
        let mut d: Vec<usize> = disc.iter().copied().chain(cdisc.iter().map(|j| j + l + 1)).collect();
        d.sort();
        d.dedup();
        self.core_proof_gen(s, &api, pk, sig, &g, hdr, ph, &m, &d, rnd)
    }

    pub fn blind_proof_verify(&self, s: Suite, pk: &G2Projective, p: &RProof, hdr: &[u8], ph: &[u8], l: usize, dmsgs: &[Vec<u8>], dcmsgs: &[Vec<u8>], didx: &[usize], dcidx: &[usize]) -> bool {
        let api = self.api_id(s, Iface::Blind);
        let mut d1 = didx.to_vec();
        d1.sort();
        d1.dedup();
        let mut d2 = dcidx.to_vec();
        d2.sort();
        d2.dedup();
        if d1.iter().any(|&i| i >= l) {
            return false;
        }
        let u = p.m_cap.len();
        // M = U + R1 + R2 - 1 - L, in the naturals
        let tot = u + d1.len() + d2.len();
        if tot < l.saturating_add(1) || l == usize::MAX {
            return false;
        }
        let mm = tot - 1 - l;
        if d1.len() + d2.len() != dmsgs.len() + dcmsgs.len() {
            return false;
        }
        let mut idx = d1.clone();
        for j in &d2 {
            match j.checked_add(l).and_then(|x| x.checked_add(1)) {
                Some(x) => idx.push(x),
                None => return false,
            }
        }
        let mut m = self.msg_scalars(s, &api, dmsgs);
        m.extend(self.msg_scalars(s, &api, dcmsgs));
        let g = self.blind_gens(s, l, mm);
        let disc: Vec<(usize, Scalar)> = idx.into_iter().zip(m.into_iter()).collect();
        self.core_proof_verify(s, &api, pk, p, &g, hdr, ph, &disc)
    }

    // ---- codecs (strict, as the drafts and property C09 demand) -----------------

    pub fn sig_encode(&self, sig: &RSig) -> Vec<u8> {
        let env: Env = vec![("A", Val::Pt(sig.a)), ("e", Val::Sc(sig.e))];
        build(&self.lay.wires["signature"], &env)
    }
    pub fn sig_decode(&self, b: &[u8]) -> RRes<RSig> {
        if b.len() != 80 {
            return Err(RErr::Invalid("length"));
        }
        let a = g1_from(&b[..48]).ok_or(RErr::Invalid("point"))?;
        let e = scalar_from_be(&b[48..]).ok_or(RErr::Invalid("scalar"))?;
        if bool::from(a.is_identity()) || e == Scalar::ZERO {
            return Err(RErr::Invalid("identity/zero"));
        }
        Ok(RSig { a, e })
    }
    pub fn proof_encode(&self, p: &RProof) -> Vec<u8> {
        let env: Env = vec![
            ("Abar", Val::Pt(p.abar)),
            ("Bbar", Val::Pt(p.bbar)),
            ("D", Val::Pt(p.d)),
            ("e_cap", Val::Sc(p.e_cap)),
            ("r1_cap", Val::Sc(p.r1_cap)),
            ("r3_cap", Val::Sc(p.r3_cap)),
            ("m_cap", Val::Scs(p.m_cap.clone())),
            ("challenge", Val::Sc(p.challenge)),
        ];
        build(&self.lay.wires["proof"], &env)
    }
    pub fn proof_decode(&self, b: &[u8]) -> RRes<RProof> {
        if b.len() < 272 || (b.len() - 272) % 32 != 0 {
            return Err(RErr::Invalid("length"));
        }
        let pt = |i: usize| g1_from(&b[48 * i..48 * (i + 1)]).ok_or(RErr::Invalid("point"));
        let (abar, bbar, d) = (pt(0)?, pt(1)?, pt(2)?);
        if bool::from(abar.is_identity()) || bool::from(bbar.is_identity()) || bool::from(d.is_identity()) {
            return Err(RErr::Invalid("identity"));
        }
        let mut sc = Vec::new();
        for ch in b[144..].chunks(32) {
            sc.push(scalar_from_be(ch).ok_or(RErr::Invalid("scalar"))?);
        }
        let challenge = sc.pop().unwrap();
        Ok(RProof {
            abar,
            bbar,
            d,
            e_cap: sc[0],
            r1_cap: sc[1],
            r3_cap: sc[2],
            m_cap: sc[3..].to_vec(),
            challenge,
        })
    }
    pub fn commit_encode(&self, c: &RCommit) -> Vec<u8> {
        let env: Env = vec![
            ("C", Val::Pt(c.c)),
            ("s_cap", Val::Sc(c.s_cap)),
            ("m_cap", Val::Scs(c.m_cap.clone())),
            ("challenge", Val::Sc(c.challenge)),
        ];
        build(&self.lay.wires["commitment"], &env)
    }
    pub fn commit_decode(&self, b: &[u8]) -> RRes<RCommit> {
        if b.len() < 112 || (b.len() - 112) % 32 != 0 {
            return Err(RErr::Invalid("length"));
        }
        let c = g1_from(&b[..48]).ok_or(RErr::Invalid("point"))?;
        let mut sc = Vec::new();
        for ch in b[48..].chunks(32) {
            sc.push(scalar_from_be(ch).ok_or(RErr::Invalid("scalar"))?);
        }
        let challenge = sc.pop().unwrap();
        Ok(RCommit {
            c,
            s_cap: sc[0],
            m_cap: sc[1..].to_vec(),
            challenge,
        })
    }
    pub fn pk_decode(&self, b: &[u8]) -> RRes<G2Projective> {
        if b.len() != 96 {
            return Err(RErr::Invalid("length"));
        }
        let p = g2_from(b).ok_or(RErr::Invalid("point"))?;
        if bool::from(p.is_identity()) {
            return Err(RErr::Invalid("identity"));
        }
        Ok(p)
    }

    /// mocked random scalars of the drafts' fixtures
    pub fn seeded_scalars(&self, s: Suite, seed: &[u8], dst: &[u8], count: usize) -> Vec<Scalar> {
        let v = self.expand(s, seed, dst, 48 * count);
        v.chunks(48).map(|c| Scalar::from_okm(c.try_into().unwrap())).collect()
    }
}
