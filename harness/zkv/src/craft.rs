//! Proofs assembled from public data only (Api!CraftVal transcribed): the
//! attacker targets a statement and chooses Abar, Bbar, D among the identity,
//! multiples of the verifier's own Bv and unrelated points, fixes T1*, T2*,
//! computes the challenge and solves the responses with the relations it knows.

use crate::refimpl::*;
use crate::replay::{prg, Inst};
use bls12_381_plus::{G1Projective, Scalar};
use group::Group;
use serde_json::{json, Value};
use std::collections::BTreeMap;

pub fn build(r: &Ref, inst: &Inst, a: &Value, keys: &BTreeMap<u64, (Vec<u8>, Vec<u8>)>) -> (Option<Vec<u8>>, String) {
    let s = Suite::from_name(a["s"].as_str().unwrap());
    let iface = Iface::from_name(a["i"].as_str().unwrap());
    let api = r.api_id(s, iface);
    let pk = g2_from(&keys[&a["key"].as_u64().unwrap()].1).unwrap();
    let hdr = inst.oct(&a["hdr"]).unwrap_or_default();
    let ph = inst.oct(&a["ph"]).unwrap_or_default();
    let u = a["U"].as_u64().unwrap() as usize;
    let lsig = a["L"].as_u64().unwrap_or(0) as usize;
    let dp: Vec<(usize, Scalar)> = a["dp"]
        .as_array()
        .unwrap()
        .iter()
        .map(|p| (p[0].as_u64().unwrap() as usize, r.msg_scalar(s, &api, &inst.oct(&p[1]).unwrap())))
        .collect();
    let l = u + dp.len();
    let gens = match iface {
        Iface::Plain => r.generators(s, &api, l + 1),
        Iface::Blind => r.blind_gens(s, lsig, l - 1 - lsig),
    };
    let (q1, h) = (&gens[0], &gens[1..]);
    let dom = r.domain(s, &api, &pk, q1, h, &hdr);
    let mut bv = r.p1(s) + q1 * dom;
    for (i, m) in &dp {
        bv += h[*i] * m;
    }
    let leaf = |n: u64| Scalar::from_okm(&prg(inst.seed, "craft", n, 0, 48).try_into().unwrap());
    let (y, x, z, t1, t2, sg) = (leaf(1), leaf(2), leaf(3), leaf(4), leaf(5), leaf(6));
    let unrelated = |n: u64| G1Projective::generator() * leaf(n);
    let pts = &a["pts"];
    let (d, yy) = match pts["D"].as_str().unwrap() {
        "id" => (G1Projective::IDENTITY, Scalar::ZERO),
        "Bv" => (bv, Scalar::ONE),
        "yBv" => (bv * y, y),
        _ => (unrelated(7), Scalar::ZERO),
    };
    let abar = match pts["A"].as_str().unwrap() {
        "id" => G1Projective::IDENTITY,
        "zBv" => bv * z,
        _ => unrelated(8),
    };
    let (bbar, xx) = match pts["B"].as_str().unwrap() {
        "id" => (G1Projective::IDENTITY, Scalar::ZERO),
        "xD" => (d * x, x),
        _ => (unrelated(9), Scalar::ZERO),
    };
    // "lo": Abar = Bbar = T, a point of order 3 outside G1; sigma in {0, 1, 2} and e^ = (sigma - c) mod 3
    let lo = pts["A"].as_str() == Some("lo");
    let (abar, bbar, sg) = if lo { (order3_point(), order3_point(), Scalar::ONE) } else { (abar, bbar, sg) };
    let t1s = d * t1 + abar * sg;
    let t2s = bv * t2;
    let dpairs: Vec<(u64, Scalar)> = dp.iter().map(|(i, m)| (*i as u64, *m)).collect();
    let c = r.challenge(s, &api, &dpairs, &abar, &bbar, &d, &t1s, &t2s, &dom, &ph);
    let r3 = if yy == Scalar::ZERO { Scalar::ZERO } else { (t2 - c) * yy.invert().unwrap() };
    let sg = if lo {
        let c_mod3 = sc_bytes(&c).iter().map(|&b| b as u64).sum::<u64>() % 3; // 256 = 1 (mod 3)
        Scalar::from((1 + 3 - c_mod3) % 3)
    } else {
        sg
    };
    let p = RProof { abar, bbar, d, e_cap: sg, r1_cap: t1 - xx * c, r3_cap: r3, m_cap: vec![Scalar::ZERO; u], challenge: c };
    let js = json!({"BBSplus": {
        "Abar": serde_json::to_value(&p.abar).unwrap(), "Bbar": serde_json::to_value(&p.bbar).unwrap(),
        "D": serde_json::to_value(&p.d).unwrap(),
        "e_cap": serde_json::to_value(&p.e_cap).unwrap(), "r1_cap": serde_json::to_value(&p.r1_cap).unwrap(),
        "r3_cap": serde_json::to_value(&p.r3_cap).unwrap(),
        "m_cap": p.m_cap.iter().map(|s| serde_json::to_value(s).unwrap()).collect::<Vec<_>>(),
        "challenge": serde_json::to_value(&p.challenge).unwrap(),
    }});
    (Some(r.proof_encode(&p)), js.to_string())
}

/// [n]P for a big-endian integer n (no reduction modulo the group order)
fn mul_be(p: &G1Projective, n_be: &[u8]) -> G1Projective {
    let mut acc = G1Projective::IDENTITY;
    for byte in n_be {
        for bit in (0..8).rev() {
            acc = acc.double();
            if (byte >> bit) & 1 == 1 {
                acc += p;
            }
        }
    }
    acc
}

/// a point of order 3 on E(Fp): on the curve, outside the prime-order subgroup G1
pub fn order3_point() -> G1Projective {
    static T: std::sync::OnceLock<G1Projective> = std::sync::OnceLock::new();
    *T.get_or_init(|| {
        // r (order of G1) and h / 3 (h the cofactor of E(Fp), 3 || h)
        let r = hex::decode("73eda753299d7d483339d80809a1d80553bda402fffe5bfeffffffff00000001").unwrap();
        let h_div_3 = hex::decode("13242eaac71ca0722eaae38e55558e39").unwrap();
        for ctr in 1u32..10_000 {
            let mut x = [0u8; 48];
            x[0] = 0x80;
            x[44..48].copy_from_slice(&ctr.to_be_bytes());
            let p = bls12_381_plus::G1Affine::from_compressed_unchecked(&x);
            if bool::from(p.is_none()) {
                continue;
            }
            let t = mul_be(&mul_be(&G1Projective::from(p.unwrap()), &r), &h_div_3);
            if bool::from(t.is_identity()) {
                continue;
            }
            assert!(bool::from((t + t + t).is_identity()));
            return t;
        }
        panic!("no point of order 3 found");
    })
}
