//! Conformance direction 1 (DESIGN §3.3): behaviours exported by TLC from the
//! bounded slices are executed step by step against the real library.
//!
//! For every step the replayer compares
//!   (verdict) the decision class Ok / Err / Panic with the specification's `res`,
//!   (verdict) for deterministic operations the octets with the concrete
//!             evaluation of the specification (refimpl), and the reference's
//!             own decision with the library's,
//!   (verdict) the proof length formula 272 + 32 * U,
//!   (drift)   randomised outputs recomputed from the recorded draws.
//! One abstract case is run under several concretisations of its abstract
//! octets (chunk lengths 1, 32, 255, 256, ...).

use crate::libapi::{self as lib, Out, OB, OI, OV};
use crate::refimpl::*;
use bls12_381_plus::{G1Projective, Scalar};
use group::Group;
use serde_json::{json, Value};
use sha2::{Digest, Sha256};
use std::collections::BTreeMap;
use std::sync::Mutex;
use zkryptium::verif_hooks;

/// run a closure on a fresh thread (empty thread-local state): decisions must not depend
/// on what the calling thread did before
pub fn fresh<T: Send>(f: impl FnOnce() -> T + Send) -> T {
    std::thread::scope(|s| s.spawn(f).join().expect("fresh thread"))
}

pub fn prg(seed: u64, label: &str, a: u64, b: u64, len: usize) -> Vec<u8> {
    let mut out = Vec::with_capacity(len + 32);
    let mut ctr = 0u64;
    while out.len() < len {
        let mut h = Sha256::new();
        h.update(seed.to_be_bytes());
        h.update(label.as_bytes());
        h.update(a.to_be_bytes());
        h.update(b.to_be_bytes());
        h.update(ctr.to_be_bytes());
        out.extend_from_slice(&h.finalize());
        ctr += 1;
    }
    out.truncate(len);
    out
}

#[derive(Clone, Debug)]
pub struct Inst {
    pub seed: u64,
    pub chunk: usize,
}

impl Inst {
    fn chunk_of(&self, v: i64) -> Vec<u8> {
        let mut c = prg(self.seed, "chunk", v as u64, self.chunk as u64, self.chunk);
        // distinct abstract octets never share a first byte
        c[0] = (c[0] & 0xf0) | ((v as u8) & 0x0f);
        c
    }
    pub fn oct(&self, abs: &Value) -> OB {
        let a = abs.as_array().expect("abstract octets");
        if a.len() == 1 && a[0].as_i64() == Some(-1) {
            return None;
        }
        let mut out = Vec::new();
        for x in a {
            out.extend_from_slice(&self.chunk_of(x.as_i64().unwrap()));
        }
        Some(out)
    }
    pub fn vec(&self, abs: &Value) -> OV {
        let a = abs.as_array().expect("abstract message vector");
        if a.len() == 1 && a[0].as_array().map(|x| x.len() == 1 && x[0].as_i64() == Some(-1)).unwrap_or(false) {
            return None;
        }
        Some(a.iter().map(|m| self.oct(m).unwrap()).collect())
    }
    pub fn idx(&self, abs: &Value) -> OI {
        let a = abs.as_array().expect("index list");
        if a.len() == 1 && a[0].as_i64() == Some(-1) {
            return None;
        }
        Some(a.iter().map(|x| x.as_u64().unwrap() as usize).collect())
    }
}

fn canon(x: &OB) -> Vec<u8> {
    x.clone().unwrap_or_default()
}
fn canonv(x: &OV) -> Vec<Vec<u8>> {
    x.clone().unwrap_or_default()
}
fn canoni(x: &OI) -> Vec<usize> {
    x.clone().unwrap_or_default()
}

#[derive(Clone, Debug)]
enum CObj {
    Sig { bytes: Vec<u8>, tamper: Option<(Vec<u8>, Vec<(usize, usize)>)> },
    Proof { bytes: Vec<u8>, tamper: Option<(Vec<u8>, Vec<(usize, usize)>)>, drawn: Vec<Scalar> },
    Commit { bytes: Vec<u8>, blind: Vec<u8>, tamper: Option<(Vec<u8>, Vec<(usize, usize)>)>, drawn: Vec<Scalar> },
    Craft { bytes: Option<Vec<u8>>, json: String },
}

#[derive(Default, Clone, Debug)]
pub struct Report {
    pub cases: usize,
    pub concrete_runs: usize,
    pub steps: usize,
    pub checks: BTreeMap<String, usize>,
    pub mismatches: Vec<Value>,
    pub drift: Vec<Value>,
    pub flips: usize,
    pub samples: Vec<Value>,
}
impl Report {
    fn tick(&mut self, prop: &str) {
        *self.checks.entry(prop.to_string()).or_insert(0) += 1;
    }
    pub fn merge(&mut self, o: Report) {
        self.cases += o.cases;
        self.concrete_runs += o.concrete_runs;
        self.steps += o.steps;
        self.flips += o.flips;
        for (k, v) in o.checks {
            *self.checks.entry(k).or_insert(0) += v;
        }
        self.mismatches.extend(o.mismatches);
        self.drift.extend(o.drift);
        if self.samples.len() < 3 {
            self.samples.extend(o.samples.into_iter().take(1));
        }
    }
}

pub struct Cfg {
    pub insts: Vec<Inst>,
    pub flip_stride: usize, // 1 = every bit; n = every n-th bit (quick tier); 0 = no flips
    pub budget_slack: usize,
}

/// property a decision mismatch belongs to
fn prop_of(op: &str, expected: &str, cross: bool) -> &'static str {
    match (op, expected) {
        ("Sign", _) | ("RoundTrip", _) | ("KeyGen", _) => "C01",
        ("Verify", "Ok") => "C01",
        ("Verify", _) => if cross { "C11" } else { "C02" },
        ("ProofGen", _) => "C03",
        ("ProofVerify", "Ok") => "C03",
        ("ProofVerify", _) => if cross { "C11" } else { "C04" },
        ("Update", _) => "C12",
        ("Commit", _) | ("BlindProofGen", _) => "C05",
        ("BlindSign", "Ok") | ("VerifyBlind", "Ok") | ("BlindProofVerify", "Ok") => "C05",
        ("BlindSign", _) | ("VerifyBlind", _) | ("BlindProofVerify", _) => if cross { "C11" } else { "C06" },
        _ => "C10",
    }
}

struct Ctx<'a> {
    r: &'a Ref,
    inst: &'a Inst,
    cfg: &'a Cfg,
    keys: BTreeMap<u64, (Vec<u8>, Vec<u8>)>,
    objs: Vec<CObj>,
    // provenance suite/interface of each artefact, to classify cross-suite cases
    meta: Vec<(Suite, Iface)>,
    rep: Report,
    case_id: usize,
    steps_json: &'a Value,
}

fn suite_of(a: &Value) -> Suite {
    Suite::from_name(a["s"].as_str().unwrap())
}

impl<'a> Ctx<'a> {
    fn mismatch(&mut self, prop: &str, step: usize, what: &str, expected: String, observed: String, extra: Value) {
        self.rep.mismatches.push(json!({
            "property": prop, "case": self.case_id, "step": step, "what": what,
            "expected": expected, "observed": observed,
            "inst": {"seed": self.inst.seed, "chunk": self.inst.chunk},
            "steps": self.steps_json, "extra": extra,
        }));
    }
    fn decide<T>(&mut self, prop: &str, step: usize, op: &str, expected: &str, got: &Out<T>, extra: Value) -> bool {
        self.rep.tick(prop);
        if got.class() == "Panic" {
            self.rep.tick("C08");
        }
        if got.class() != expected {
            let p = if got.class() == "Panic" { "C08" } else { prop };
            self.mismatch(p, step, &format!("decision of {op}"), expected.to_string(), got.detail(), extra.clone());
            // a crash where the specification says the call succeeds is also a failure of the functional property
            if got.class() == "Panic" && expected == "Ok" && prop != "C08" {
                self.mismatch(prop, step, &format!("decision of {op}"), expected.to_string(), got.detail(), extra.clone());
            }
            // the library refuses (or crashes on) a call of the draft's own operations that the specification -- and the
            // reference implementation, which follows it -- carries out: its outputs and decisions differ from an
            // independent implementation's (C10)
            let base = op.split(' ').next().unwrap_or(op);
            if expected == "Ok" && ["Sign", "Verify", "ProofGen", "ProofVerify", "CommitA", "BlindSign", "VerifyBlind", "BlindProofGen", "BlindProofVerify"].contains(&base) && matches!(prop, "C01" | "C03" | "C05") {
                self.mismatch("C10", step, &format!("decision of {op} (the reference implementation carries this call out)"), expected.to_string(), got.detail(), extra);
            }
            false
        } else {
            true
        }
    }
    fn bytes_eq(&mut self, prop: &str, step: usize, what: &str, lib: &[u8], reference: &[u8]) {
        self.rep.tick(prop);
        if lib != reference {
            self.mismatch(prop, step, what, hex::encode(reference), hex::encode(lib), json!({}));
        }
    }
    fn key(&self, k: &Value) -> (Vec<u8>, Vec<u8>) {
        self.keys[&k.as_u64().unwrap()].clone()
    }
    fn budget(&self, size: usize) -> Option<usize> {
        Some(4 * size + 16 + self.cfg.budget_slack)
    }

    fn sig_bytes(&self, h: &Value) -> Vec<u8> {
        match &self.objs[h.as_u64().unwrap() as usize - 1] {
            CObj::Sig { bytes, .. } => bytes.clone(),
            o => panic!("handle {h} is not a signature: {o:?}"),
        }
    }

    /// all single-bit flips of the given byte ranges (stride-sampled)
    fn flips(&self, orig: &[u8], ranges: &[(usize, usize)]) -> Vec<Vec<u8>> {
        let mut out = Vec::new();
        if self.cfg.flip_stride == 0 {
            return out;
        }
        let mut n = (self.inst.seed as usize) % self.cfg.flip_stride;
        for &(a, b) in ranges {
            for byte in a..b.min(orig.len()) {
                for bit in 0..8 {
                    if n % self.cfg.flip_stride == 0 {
                        let mut v = orig.to_vec();
                        v[byte] ^= 1 << bit;
                        out.push(v);
                    }
                    n += 1;
                }
            }
        }
        out
    }

    fn random_point(&self, tag: u64) -> Vec<u8> {
        let s = Scalar::from_okm(&prg(self.inst.seed, "pt", tag, self.case_id as u64, 48).try_into().unwrap());
        pt_bytes(&(G1Projective::generator() * s)).to_vec()
    }
    fn random_scalar(&self, tag: u64) -> Vec<u8> {
        sc_bytes(&Scalar::from_okm(&prg(self.inst.seed, "sc", tag, self.case_id as u64, 48).try_into().unwrap())).to_vec()
    }

    /// apply Tamper(fields, dl) to wire bytes with `npts` leading points
    fn tamper_bytes(&self, bytes: &[u8], npts: usize, fields: &Value, dl: i64) -> (Vec<u8>, Vec<(usize, usize)>) {
        let mut v = bytes.to_vec();
        let mut ranges = Vec::new();
        for (fi, f) in fields.as_array().unwrap().iter().enumerate() {
            let code = f.as_u64().unwrap() as usize;
            if code > 200 {
                let j = code - 201; // 0-based point replaced by the identity encoding
                assert!(j < npts);
                let mut id = [0u8; 48];
                id[0] = 0xc0;
                v[48 * j..48 * (j + 1)].copy_from_slice(&id);
                // no bit-flip sweep for this class: the point is exactly the identity
            } else if code > 100 {
                let j = code - 101; // 0-based point
                assert!(j < npts);
                v[48 * j..48 * (j + 1)].copy_from_slice(&self.random_point(fi as u64 + 1));
                ranges.push((48 * j, 48 * (j + 1)));
            } else {
                let off = 48 * npts + 32 * (code - 1); // 1-based scalar position
                v[off..off + 32].copy_from_slice(&self.random_scalar(fi as u64 + 11));
                ranges.push((off, off + 32));
            }
        }
        // dl whole scalars appended (dl > 0) or removed from the end (dl < 0)
        for k in 0..dl.max(0) {
            v.extend_from_slice(&self.random_scalar(99 + k as u64));
        }
        if dl < 0 {
            let n = v.len();
            v.truncate(n.saturating_sub(32 * (-dl) as usize));
        }
        (v, ranges)
    }

    fn run_step(&mut self, i: usize, st: &Value) -> bool {
        let op = st["op"].as_str().unwrap();
        let a = &st["args"];
        let exp = st["res"].as_str().unwrap();
        self.rep.steps += 1;
        let r = self.r;
        match op {
            "KeyGen" => {
                let id = a["key"].as_u64().unwrap();
                let s = if id % 2 == 1 { Suite::Sha } else { Suite::Shake };
                let ikm = prg(self.inst.seed, "ikm", id, 0, 32 + (self.inst.chunk % 40));
                let info = prg(self.inst.seed, "info", id, 0, self.inst.chunk % 300);
                let got = lib::keygen(s, &ikm, Some(&info), None);
                if !self.decide("C01", i, op, "Ok", &got, json!({})) {
                    return false;
                }
                let (sk, pk) = got.ok().unwrap();
                let rsk = r.keygen(s, &ikm, &info, None).unwrap();
                self.bytes_eq("C10", i, "key_gen secret key", &sk, &sc_bytes(&rsk));
                self.bytes_eq("C10", i, "sk_to_pk public key", &pk, &pk_bytes(&r.sk_to_pk(&rsk)));
                self.keys.insert(id, (sk, pk));
                true
            }
            "Sign" => {
                let s = suite_of(a);
                let (sk, pk) = self.key(&a["key"]);
                let hdr = self.inst.oct(&a["hdr"]);
                let msgs = self.inst.vec(&a["msgs"]);
                let l = canonv(&msgs).len();
                let got = lib::sign(s, &sk, &pk, &hdr, &msgs, self.budget(l + 1));
                if !self.decide("C01", i, op, exp, &got, json!({})) {
                    return false;
                }
                if let Out::Ok(bytes) = got {
                    let rs = r.sign(s, &scalar_from_be(&sk).unwrap(), &g2_from(&pk).unwrap(), &canon(&hdr), &canonv(&msgs)).unwrap();
                    self.bytes_eq("C10", i, "signature octets", &bytes, &r.sig_encode(&rs));
                    self.objs.push(CObj::Sig { bytes, tamper: None });
                    self.meta.push((s, Iface::Plain));
                }
                true
            }
            "RoundTrip" => {
                let h = a["obj"].as_u64().unwrap() as usize - 1;
                let (s, _) = self.meta[h];
                match self.objs[h].clone() {
                    CObj::Sig { bytes, .. } => {
                        let got = lib::sig_roundtrip(s, &bytes);
                        if self.decide("C01", i, op, "Ok", &got, json!({})) {
                            self.bytes_eq("C09", i, "signature re-encoding", &got.ok().unwrap(), &bytes);
                        }
                    }
                    CObj::Proof { bytes, .. } => {
                        let got = lib::proof_roundtrip(s, &bytes);
                        if self.decide("C03", i, op, "Ok", &got, json!({})) {
                            self.bytes_eq("C09", i, "proof re-encoding", &got.ok().unwrap(), &bytes);
                        }
                    }
                    CObj::Commit { bytes, .. } => {
                        let got = lib::commit_roundtrip(s, &bytes);
                        if self.decide("C05", i, op, "Ok", &got, json!({})) {
                            self.bytes_eq("C09", i, "commitment re-encoding", &got.ok().unwrap(), &bytes);
                        }
                    }
                    CObj::Craft { .. } => {}
                }
                true
            }
            "Tamper" => {
                let h = a["obj"].as_u64().unwrap() as usize - 1;
                let dl = a["dl"].as_i64().unwrap();
                let new = match self.objs[h].clone() {
                    CObj::Sig { bytes, .. } => {
                        let (v, rg) = self.tamper_bytes(&bytes, 1, &a["fields"], dl);
                        CObj::Sig { bytes: v, tamper: Some((bytes, rg)) }
                    }
                    CObj::Proof { bytes, drawn, .. } => {
                        let (v, rg) = self.tamper_bytes(&bytes, 3, &a["fields"], dl);
                        CObj::Proof { bytes: v, tamper: Some((bytes, rg)), drawn }
                    }
                    CObj::Commit { bytes, blind, drawn, .. } => {
                        let (v, rg) = self.tamper_bytes(&bytes, 1, &a["fields"], dl);
                        CObj::Commit { bytes: v, blind, tamper: Some((bytes, rg)), drawn }
                    }
                    c => c,
                };
                self.objs.push(new);
                self.meta.push(self.meta[h]);
                true
            }
            "Verify" | "VerifyBlind" => {
                let s = suite_of(a);
                let h = a["sig"].as_u64().unwrap() as usize - 1;
                let (_, pk) = self.key(&a["key"]);
                let hdr = self.inst.oct(&a["hdr"]);
                let msgs = self.inst.vec(&a["msgs"]);
                let (bytes, tamper) = match &self.objs[h] {
                    CObj::Sig { bytes, tamper } => (bytes.clone(), tamper.clone()),
                    o => panic!("not a signature {o:?}"),
                };
                let blind_if = op == "VerifyBlind";
                let cross = self.meta[h] != (s, if blind_if { Iface::Blind } else { Iface::Plain });
                let (cms, bl): (OV, OB) = if blind_if {
                    let bl = match a["bl"]["t"].as_str().unwrap() {
                        "none" => None,
                        "of" => match &self.objs[a["bl"]["h"].as_u64().unwrap() as usize - 1] {
                            CObj::Commit { blind, .. } => Some(blind.clone()),
                            _ => panic!("bl.of is not a commitment"),
                        },
                        _ => Some(self.random_scalar(7)),
                    };
                    (self.inst.vec(&a["cms"]), bl)
                } else {
                    (None, None)
                };
                let size = canonv(&msgs).len() + canonv(&cms).len() + 2;
                let run = |b: &[u8]| {
                    if blind_if {
                        lib::verify_blind(s, b, &pk, &hdr, &msgs, &cms, &bl, Some(4 * size + 16))
                    } else {
                        lib::verify(s, b, &pk, &hdr, &msgs, Some(4 * size + 16))
                    }
                };
                let got = run(&bytes);
                let prop = prop_of(op, exp, cross);
                self.decide(prop, i, op, exp, &got, json!({"sig": hex::encode(&bytes)}));
                let got2 = fresh(|| run(&bytes));
                self.decide(prop, i, &format!("{op} (fresh thread)"), exp, &got2, json!({"sig": hex::encode(&bytes)}));
                // the reference's own decision (C10)
                let rdec = match (r.sig_decode(&bytes), g2_from(&pk)) {
                    (Ok(sig), Some(pkp)) => {
                        if blind_if {
                            let b = bl.as_ref().map(|x| scalar_from_be(x).unwrap()).unwrap_or(Scalar::ZERO);
                            r.blind_verify(s, &pkp, &sig, &canon(&hdr), &canonv(&msgs), &canonv(&cms), &b)
                        } else {
                            r.verify(s, &pkp, &sig, &canon(&hdr), &canonv(&msgs))
                        }
                    }
                    _ => false,
                };
                self.rep.tick("C10");
                if (got.class() == "Ok") != rdec {
                    self.mismatch("C10", i, &format!("decision of {op} vs reference"), format!("{rdec}"), got.detail(), json!({}));
                }
                // exhaustive single-bit flips of the tampered fields of the honest encoding
                if let Some((orig, ranges)) = tamper {
                    if exp == "Err" {
                        for f in self.flips(&orig, &ranges) {
                            self.rep.flips += 1;
                            let g = run(&f);
                            self.rep.tick(prop);
                            if g.class() != "Err" {
                                let p = if g.class() == "Panic" { "C08" } else { prop };
                                self.mismatch(p, i, &format!("{op} after single-bit flip"), "Err".into(), g.detail(), json!({"sig": hex::encode(&f)}));
                                break;
                            }
                        }
                    }
                }
                true
            }
            "Update" => {
                let s = suite_of(a);
                let (sk, _) = self.key(&a["key"]);
                let bytes = self.sig_bytes(&a["sig"]);
                let old = self.inst.oct(&a["old"]).unwrap();
                let new = self.inst.oct(&a["new"]).unwrap();
                let idx = a["idx"].as_u64().unwrap() as usize;
                let n = a["n"].as_u64().unwrap() as usize;
                let got = lib::update(s, &bytes, &sk, &old, &new, idx, n, self.budget(n + 1));
                if !self.decide("C12", i, op, exp, &got, json!({})) {
                    return false;
                }
                if let Out::Ok(nb) = got {
                    if let Ok(sig) = r.sig_decode(&bytes) {
                        if let Ok(u) = r.update(s, &scalar_from_be(&sk).unwrap(), &sig, &old, &new, idx, n) {
                            self.bytes_eq("C12", i, "updated signature octets", &nb, &r.sig_encode(&u));
                        }
                    }
                    let h = a["sig"].as_u64().unwrap() as usize - 1;
                    self.objs.push(CObj::Sig { bytes: nb, tamper: None });
                    self.meta.push(self.meta[h]);
                }
                true
            }
            "ProofGen" | "BlindProofGen" => {
                let s = suite_of(a);
                let blind_if = op == "BlindProofGen";
                let (_, pk) = self.key(&a["key"]);
                let sig = self.sig_bytes(&a["sig"]);
                let hdr = self.inst.oct(&a["hdr"]);
                let ph = self.inst.oct(&a["ph"]);
                let msgs = self.inst.vec(&a["msgs"]);
                let didx = self.inst.idx(&a["didx"]);
                let (cms, dcidx, bl): (OV, OI, OB) = if blind_if {
                    let bl = match a["bl"]["t"].as_str().unwrap() {
                        "none" => None,
                        "of" => match &self.objs[a["bl"]["h"].as_u64().unwrap() as usize - 1] {
                            CObj::Commit { blind, .. } => Some(blind.clone()),
                            _ => panic!("bl.of is not a commitment"),
                        },
                        _ => Some(self.random_scalar(7)),
                    };
                    (self.inst.vec(&a["cms"]), self.inst.idx(&a["dcidx"]), bl)
                } else {
                    (None, None, None)
                };
                let l = canonv(&msgs).len();
                let m = canonv(&cms).len();
                verif_hooks::start_recording();
                let got = if blind_if {
                    lib::blind_proof_gen(s, &pk, &sig, &hdr, &ph, &msgs, &cms, &didx, &dcidx, &bl, self.budget(l + m + 2))
                } else {
                    lib::proof_gen(s, &pk, &sig, &hdr, &ph, &msgs, &didx, self.budget(l + 1))
                };
                let draws = verif_hooks::take_draws();
                verif_hooks::stop_recording();
                let prop = if blind_if { "C05" } else { "C03" };
                if !self.decide(prop, i, op, exp, &got, json!({})) {
                    return false;
                }
                if let Out::Ok(bytes) = got {
                    // length formula: 272 + 32 * U, a function of U only
                    let mut dset: Vec<usize> = canoni(&didx);
                    dset.sort();
                    dset.dedup();
                    let mut cset: Vec<usize> = canoni(&dcidx);
                    cset.sort();
                    cset.dedup();
                    let total = if blind_if { l + 1 + m } else { l };
                    let u = total - dset.len() - cset.len();
                    self.rep.tick(prop);
                    if bytes.len() != 272 + 32 * u {
                        self.mismatch(prop, i, "proof length", format!("{}", 272 + 32 * u), format!("{}", bytes.len()), json!({}));
                    }
                    // drift: recompute the proof from the recorded draws
                    let drawn: Vec<Scalar> = draws.iter().filter(|d| d.site == "get_random").filter_map(|d| scalar_from_be(&d.value)).collect();
                    if let (Ok(rsig), Some(pkp)) = (r.sig_decode(&sig), g2_from(&pk)) {
                        let rp = if blind_if {
                            let b = bl.as_ref().map(|x| scalar_from_be(x).unwrap()).unwrap_or(Scalar::ZERO);
                            r.blind_proof_gen(s, &pkp, &rsig, &canon(&hdr), &canon(&ph), &canonv(&msgs), &canonv(&cms), &dset, &cset, &b, &drawn)
                        } else {
                            r.proof_gen(s, &pkp, &rsig, &canon(&hdr), &canon(&ph), &canonv(&msgs), &dset, &drawn)
                        };
                        match rp {
                            Ok(p) if r.proof_encode(&p) == bytes => {}
                            other => self.rep.drift.push(json!({"case": self.case_id, "step": i, "what": "proof octets differ from the specification evaluated on the recorded draws",
                                "draws": drawn.len(), "reference": format!("{:?}", other.map(|p| hex::encode(r.proof_encode(&p))))})),
                        }
                    }
                    self.objs.push(CObj::Proof { bytes, tamper: None, drawn });
                    self.meta.push((s, if blind_if { Iface::Blind } else { Iface::Plain }));
                }
                true
            }
            "ProofVerify" | "BlindProofVerify" => {
                let s = suite_of(a);
                let blind_if = op == "BlindProofVerify";
                let h = a["proof"].as_u64().unwrap() as usize - 1;
                let (_, pk) = self.key(&a["key"]);
                let hdr = self.inst.oct(&a["hdr"]);
                let ph = self.inst.oct(&a["ph"]);
                let dmsgs = self.inst.vec(&a["dmsgs"]);
                let didx = self.inst.idx(&a["didx"]);
                let (dcmsgs, dcidx, l): (OV, OI, Option<usize>) = if blind_if {
                    (self.inst.vec(&a["dcmsgs"]), self.inst.idx(&a["dcidx"]), if a["L"].as_i64() == Some(-1) { None } else { Some(a["L"].as_u64().unwrap() as usize) })
                } else {
                    (None, None, None)
                };
                let cross = self.meta[h] != (s, if blind_if { Iface::Blind } else { Iface::Plain });
                let prop = prop_of(op, exp, cross);
                let (bytes, tamper, jsonform) = match &self.objs[h] {
                    CObj::Proof { bytes, tamper, .. } => (Some(bytes.clone()), tamper.clone(), None),
                    CObj::Craft { bytes, json } => (bytes.clone(), None, Some(json.clone())),
                    o => panic!("not a proof {o:?}"),
                };
                let size = canonv(&dmsgs).len() + canonv(&dcmsgs).len() + canoni(&didx).len() + canoni(&dcidx).len() + bytes.as_ref().map(|b| b.len() / 32).unwrap_or(16) + 2;
                let run = |b: &[u8]| {
                    if blind_if {
                        lib::blind_proof_verify(s, b, &pk, &hdr, &ph, l, &dmsgs, &dcmsgs, &didx, &dcidx, Some(4 * size + 16))
                    } else {
                        lib::proof_verify(s, b, &pk, &hdr, &ph, &dmsgs, &didx, Some(4 * size + 16))
                    }
                };
                if let Some(bytes) = &bytes {
                    let got = run(bytes);
                    self.decide(prop, i, op, exp, &got, json!({"proof": hex::encode(bytes)}));
                    let got2 = fresh(|| run(bytes));
                    self.decide(prop, i, &format!("{op} (fresh thread)"), exp, &got2, json!({"proof": hex::encode(bytes)}));
                    let rdec = match (r.proof_decode(bytes), g2_from(&pk)) {
                        (Ok(p), Some(pkp)) => {
                            if blind_if {
                                r.blind_proof_verify(s, &pkp, &p, &canon(&hdr), &canon(&ph), l.unwrap_or(0), &canonv(&dmsgs), &canonv(&dcmsgs), &canoni(&didx), &canoni(&dcidx))
                            } else {
                                r.proof_verify(s, &pkp, &p, &canon(&hdr), &canon(&ph), &canonv(&dmsgs), &canoni(&didx))
                            }
                        }
                        _ => false,
                    };
                    self.rep.tick("C10");
                    if (got.class() == "Ok") != rdec {
                        self.mismatch("C10", i, &format!("decision of {op} vs reference"), format!("{rdec}"), got.detail(), json!({}));
                    }
                }
                // crafted proofs are also presented through the serde path
                if let (Some(j), false) = (&jsonform, blind_if) {
                    let got = lib::proof_verify_json(s, j, &pk, &hdr, &ph, &dmsgs, &didx);
                    self.decide(prop, i, "ProofVerify(serde)", exp, &got, json!({"proof_json": j}));
                }
                if let Some((orig, ranges)) = tamper {
                    if exp == "Err" {
                        for f in self.flips(&orig, &ranges) {
                            self.rep.flips += 1;
                            let g = run(&f);
                            self.rep.tick(prop);
                            if g.class() != "Err" {
                                let p = if g.class() == "Panic" { "C08" } else { prop };
                                self.mismatch(p, i, &format!("{op} after single-bit flip"), "Err".into(), g.detail(), json!({"proof": hex::encode(&f)}));
                                break;
                            }
                        }
                    }
                }
                true
            }
            "Craft" => {
                let (bytes, js) = crate::craft::build(self.r, self.inst, a, &self.keys);
                self.objs.push(CObj::Craft { bytes, json: js });
                self.meta.push((suite_of(a), Iface::from_name(a["i"].as_str().unwrap())));
                true
            }
            "Commit" => {
                let s = suite_of(a);
                let cms = self.inst.vec(&a["cms"]);
                let m = canonv(&cms).len();
                verif_hooks::start_recording();
                let got = lib::commit(s, &cms, self.budget(m + 1));
                let draws = verif_hooks::take_draws();
                verif_hooks::stop_recording();
                if !self.decide("C05", i, op, exp, &got, json!({})) {
                    return false;
                }
                let (bytes, blind) = got.ok().unwrap();
                self.rep.tick("C05");
                if bytes.len() != 48 + 32 * (m + 2) {
                    self.mismatch("C05", i, "commitment length", format!("{}", 48 + 32 * (m + 2)), format!("{}", bytes.len()), json!({}));
                }
                let drawn: Vec<Scalar> = draws.iter().filter(|d| d.site == "get_random").filter_map(|d| scalar_from_be(&d.value)).collect();
                match r.commit(s, &canonv(&cms), &drawn) {
                    Ok((c, b)) if r.commit_encode(&c) == bytes && sc_bytes(&b).to_vec() == blind => {}
                    _ => self.rep.drift.push(json!({"case": self.case_id, "step": i, "what": "commitment octets differ from the specification evaluated on the recorded draws", "draws": drawn.len()})),
                }
                // the reference verifier accepts the library's commitment (C10 decision)
                self.rep.tick("C10");
                let racc = r.commit_decode(&bytes).map(|c| r.commit_verify(s, &c)).unwrap_or(false);
                if !racc {
                    self.mismatch("C10", i, "reference rejects the library's commitment", "true".into(), "false".into(), json!({"commit": hex::encode(&bytes)}));
                }
                self.objs.push(CObj::Commit { bytes, blind, tamper: None, drawn });
                self.meta.push((s, Iface::Blind));
                true
            }
            "BlindSign" => {
                let s = suite_of(a);
                let (sk, pk) = self.key(&a["key"]);
                let hdr = self.inst.oct(&a["hdr"]);
                let msgs = self.inst.vec(&a["msgs"]);
                let cm = a["cm"].as_u64().unwrap() as usize;
                let (cbytes, tamper, cs): (OB, _, Suite) = if cm == 0 {
                    (None, None, s)
                } else {
                    match &self.objs[cm - 1] {
                        CObj::Commit { bytes, tamper, .. } => (Some(bytes.clone()), tamper.clone(), self.meta[cm - 1].0),
                        o => panic!("not a commitment {o:?}"),
                    }
                };
                let cross = cs != s;
                let prop = prop_of(op, exp, cross);
                let size = canonv(&msgs).len() + cbytes.as_ref().map(|b| b.len() / 32).unwrap_or(0) + 2;
                let got = lib::blind_sign(s, &sk, &pk, &cbytes, &hdr, &msgs, Some(4 * size + 16));
                let okd = self.decide(prop, i, op, exp, &got, json!({"commit": cbytes.as_ref().map(hex::encode)}));
                let got2 = fresh(|| lib::blind_sign(s, &sk, &pk, &cbytes, &hdr, &msgs, Some(4 * size + 16)));
                self.decide(prop, i, "BlindSign (fresh thread)", exp, &got2, json!({"commit": cbytes.as_ref().map(hex::encode)}));
                if let Some((orig, ranges)) = tamper {
                    if exp == "Err" {
                        for f in self.flips(&orig, &ranges) {
                            self.rep.flips += 1;
                            let g = lib::blind_sign(s, &sk, &pk, &Some(f.clone()), &hdr, &msgs, Some(4 * size + 16));
                            self.rep.tick(prop);
                            if g.class() != "Err" {
                                let p = if g.class() == "Panic" { "C08" } else { prop };
                                self.mismatch(p, i, "BlindSign after single-bit flip of the commitment", "Err".into(), g.detail(), json!({"commit": hex::encode(&f)}));
                                break;
                            }
                        }
                    }
                }
                if !okd {
                    return false;
                }
                if let Out::Ok(bytes) = got {
                    let rc = cbytes.as_ref().map(|b| r.commit_decode(b));
                    let rs = match rc {
                        None => r.blind_sign(s, &scalar_from_be(&sk).unwrap(), &g2_from(&pk).unwrap(), None, &canon(&hdr), &canonv(&msgs)),
                        Some(Ok(c)) => r.blind_sign(s, &scalar_from_be(&sk).unwrap(), &g2_from(&pk).unwrap(), Some(&c), &canon(&hdr), &canonv(&msgs)),
                        Some(Err(e)) => Err(e),
                    };
                    match rs {
                        Ok(rs) => self.bytes_eq("C10", i, "blind signature octets", &bytes, &r.sig_encode(&rs)),
                        Err(e) => self.mismatch("C10", i, "reference refuses what the library signed", format!("{e:?}"), "Ok".into(), json!({})),
                    }
                    self.objs.push(CObj::Sig { bytes, tamper: None });
                    self.meta.push((s, Iface::Blind));
                }
                true
            }
            other => panic!("unknown op {other}"),
        }
    }
}

/// calls of growing size (both suites, plain and blind interface); the results are not judged here
pub fn history_ladder(seed: u64) {
    for s in [Suite::Sha, Suite::Shake] {
        let ikm = prg(seed, "ladder-ikm", 0, 0, 40);
        let Out::Ok((sk, pk)) = lib::keygen(s, &ikm, None, None) else { continue };
        for l in 1..=9usize {
            let msgs: Vec<Vec<u8>> = (0..l).map(|j| prg(seed, "ladder-msg", l as u64, j as u64, 6)).collect();
            let hdr = Some(vec![l as u8]);
            if let Out::Ok(sig) = lib::sign(s, &sk, &pk, &hdr, &Some(msgs.clone()), None) {
                let _ = lib::verify(s, &sig, &pk, &hdr, &Some(msgs.clone()), None);
                if let Out::Ok(p) = lib::proof_gen(s, &pk, &sig, &hdr, &None, &Some(msgs.clone()), &Some(vec![0]), None) {
                    let _ = lib::proof_verify(s, &p, &pk, &hdr, &None, &Some(msgs[..1].to_vec()), &Some(vec![0]), None);
                }
            }
            if l <= 5 {
                let cms = msgs[..l / 2].to_vec();
                if let Out::Ok((c, bf)) = lib::commit(s, &Some(cms.clone()), None) {
                    if let Out::Ok(sig) = lib::blind_sign(s, &sk, &pk, &Some(c), &hdr, &Some(msgs.clone()), None) {
                        let _ = lib::verify_blind(s, &sig, &pk, &hdr, &Some(msgs.clone()), &Some(cms.clone()), &Some(bf), None);
                    }
                }
            }
        }
    }
}

pub fn run_cases(r: &Ref, cases: &[Value], cfg: &Cfg, threads: usize) -> Report {
    let total = Mutex::new(Report::default());
    let n = cases.len();
    let chunk = (n + threads - 1) / threads.max(1);
    std::thread::scope(|sc| {
        for t in 0..threads {
            let total = &total;
            let lo = (t * chunk).min(n);
            let hi = ((t + 1) * chunk).min(n);
            sc.spawn(move || {
                let mut rep = Report::default();
                // a history before the cases: requests of growing size on this thread, so that the cases run
                // after a sequence of earlier calls (the fresh-thread re-executions are the empty history)
                history_ladder(cfg.insts.first().map(|i| i.seed).unwrap_or(0));
                for ci in lo..hi {
                    let steps = &cases[ci];
                    rep.cases += 1;
                    // each abstract case runs under one concretisation chosen round-robin,
                    // plus all of them for every 16th case
                    let picks: Vec<&Inst> = if ci % 16 == 0 { cfg.insts.iter().collect() } else { vec![&cfg.insts[ci % cfg.insts.len()]] };
                    for inst in picks {
                        let mut cx = Ctx { r, inst, cfg, keys: BTreeMap::new(), objs: vec![], meta: vec![], rep: Report::default(), case_id: ci, steps_json: steps };
                        cx.rep.concrete_runs += 1;
                        for (i, st) in steps.as_array().unwrap().iter().enumerate() {
                            if !cx.run_step(i, st) {
                                break;
                            }
                        }
                        if ci == lo && rep.samples.is_empty() {
                            cx.rep.samples.push(json!({"case": steps, "inst": {"seed": inst.seed, "chunk": inst.chunk}}));
                        }
                        rep.merge(cx.rep);
                    }
                }
                total.lock().unwrap().merge(rep);
            });
        }
    });
    total.into_inner().unwrap()
}
