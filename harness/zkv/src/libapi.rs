//! Thin adapter over the public API of zkryptium: every call goes through
//! `catch_unwind`, works on wire bytes, and returns a uniform outcome.
//! A panic in the code under test is data (`Out::Panic`), never a harness crash.

use crate::refimpl::{Iface, Suite};
use std::panic::{catch_unwind, AssertUnwindSafe};
use zkryptium::bbsplus::ciphersuites::{Bls12381Sha256, Bls12381Shake256};
use zkryptium::bbsplus::commitment::BlindFactor;
use zkryptium::bbsplus::generators::Generators;
use zkryptium::bbsplus::keys::{BBSplusPublicKey, BBSplusSecretKey};
use zkryptium::errors::Error;
use zkryptium::keys::pair::KeyPair;
use zkryptium::schemes::algorithms::BBSplus;
use zkryptium::schemes::generics::{BlindSignature, Commitment, PoKSignature, Signature};
use zkryptium::verif_hooks;

#[derive(Clone, Debug, PartialEq, Eq)]
pub enum Out<T> {
    Ok(T),
    Err(String),
    Panic(String),
}
impl<T> Out<T> {
    pub fn class(&self) -> &'static str {
        match self {
            Out::Ok(_) => "Ok",
            Out::Err(_) => "Err",
            Out::Panic(_) => "Panic",
        }
    }
    pub fn detail(&self) -> String {
        match self {
            Out::Ok(_) => "Ok".into(),
            Out::Err(e) => format!("Err:{e}"),
            Out::Panic(p) => format!("Panic:{p}"),
        }
    }
    pub fn ok(self) -> Option<T> {
        match self {
            Out::Ok(t) => Some(t),
            _ => None,
        }
    }
    pub fn map<U>(self, f: impl FnOnce(T) -> U) -> Out<U> {
        match self {
            Out::Ok(t) => Out::Ok(f(t)),
            Out::Err(e) => Out::Err(e),
            Out::Panic(p) => Out::Panic(p),
        }
    }
}

fn variant(e: &Error) -> String {
    let s = format!("{e:?}");
    s.split(|c| c == '(' || c == ' ').next().unwrap_or("").to_string()
}

pub fn install_quiet_panic_hook() {
    // ZKV_LOUD=1 keeps the default hook (to see where a harness panic comes from)
    if std::env::var("ZKV_LOUD").is_ok() {
        return;
    }
    std::panic::set_hook(Box::new(|_| {}));
}

/// run a library call; the generator budget (if any) is installed around it
pub fn guard<T>(budget: Option<usize>, f: impl FnOnce() -> Result<T, Error>) -> Out<T> {
    verif_hooks::set_gen_budget(budget);
    let r = catch_unwind(AssertUnwindSafe(f));
    verif_hooks::set_gen_budget(None);
    match r {
        Ok(Ok(t)) => Out::Ok(t),
        Ok(Err(e)) => Out::Err(variant(&e)),
        Err(p) => {
            let msg = if let Some(s) = p.downcast_ref::<&str>() {
                s.to_string()
            } else if let Some(s) = p.downcast_ref::<String>() {
                s.clone()
            } else if let Some(b) = p.downcast_ref::<verif_hooks::GenBudgetExceeded>() {
                format!("GenBudgetExceeded requested={} budget={}", b.requested, b.budget)
            } else {
                "non-string panic payload".to_string()
            };
            Out::Panic(msg)
        }
    }
}
/// like `guard`, but the generator budget is enforced at each generator derived instead of at the request, so
/// that what the callee computes between the request and its first unit of work (loop bounds, allocations) runs
pub fn guard_lazy<T>(budget: usize, f: impl FnOnce() -> Result<T, Error>) -> Out<T> {
    verif_hooks::set_gen_budget_lazy(true);
    let r = guard(Some(budget), f);
    verif_hooks::set_gen_budget_lazy(false);
    r
}
pub fn guard_plain<T>(budget: Option<usize>, f: impl FnOnce() -> T) -> Out<T> {
    guard(budget, || Ok(f()))
}

macro_rules! with_suite {
    ($s:expr, $cs:ident => $body:expr) => {
        match $s {
            Suite::Sha => {
                type $cs = Bls12381Sha256;
                $body
            }
            Suite::Shake => {
                type $cs = Bls12381Shake256;
                $body
            }
        }
    };
}

fn opt<'a>(x: &'a Option<Vec<u8>>) -> Option<&'a [u8]> {
    x.as_deref()
}
fn optv<'a>(x: &'a Option<Vec<Vec<u8>>>) -> Option<&'a [Vec<u8>]> {
    x.as_deref()
}
fn opti<'a>(x: &'a Option<Vec<usize>>) -> Option<&'a [usize]> {
    x.as_deref()
}

pub type OB = Option<Vec<u8>>;
pub type OV = Option<Vec<Vec<u8>>>;
pub type OI = Option<Vec<usize>>;

pub fn pk_from(b: &[u8]) -> Out<BBSplusPublicKey> {
    let b = b.to_vec();
    guard(None, move || BBSplusPublicKey::from_bytes(&b))
}
pub fn sk_from(b: &[u8]) -> Out<BBSplusSecretKey> {
    let b = b.to_vec();
    guard(None, move || BBSplusSecretKey::from_bytes(&b))
}

/// KeyPair::generate -> (sk bytes, pk bytes)
pub fn keygen(s: Suite, ikm: &[u8], info: Option<&[u8]>, dst: Option<&[u8]>) -> Out<(Vec<u8>, Vec<u8>)> {
    with_suite!(s, CS => guard(None, || {
        let kp = KeyPair::<BBSplus<CS>>::generate(ikm, info, dst)?;
        Ok((kp.private_key().to_bytes().to_vec(), kp.public_key().to_bytes().to_vec()))
    }))
}
pub fn key_random(s: Suite) -> Out<(Vec<u8>, Vec<u8>)> {
    with_suite!(s, CS => guard(None, || {
        let kp = KeyPair::<BBSplus<CS>>::random()?;
        Ok((kp.private_key().to_bytes().to_vec(), kp.public_key().to_bytes().to_vec()))
    }))
}
pub fn sk_to_pk(sk: &[u8]) -> Out<Vec<u8>> {
    let sk = sk.to_vec();
    guard(None, move || Ok(BBSplusSecretKey::from_bytes(&sk)?.public_key().to_bytes().to_vec()))
}

pub fn generators(s: Suite, count: usize, api: Option<&[u8]>, budget: Option<usize>) -> Out<(Vec<u8>, Vec<Vec<u8>>)> {
    use bls12_381_plus::group::Curve;
    with_suite!(s, CS => guard_plain(budget, || {
        let g = Generators::create::<CS>(count, api);
        (g.g1_base_point.to_affine().to_compressed().to_vec(),
         g.values.iter().map(|p| p.to_affine().to_compressed().to_vec()).collect())
    }))
}

pub fn sign(s: Suite, sk: &[u8], pk: &[u8], hdr: &OB, msgs: &OV, budget: Option<usize>) -> Out<Vec<u8>> {
    with_suite!(s, CS => guard(budget, || {
        let sk = BBSplusSecretKey::from_bytes(sk)?;
        let pk = BBSplusPublicKey::from_bytes(pk)?;
        let sig = Signature::<BBSplus<CS>>::sign(optv(msgs), &sk, &pk, opt(hdr))?;
        Ok(sig.to_bytes().to_vec())
    }))
}

/// decode + verify; a decoding error counts as Err
pub fn verify(s: Suite, sig: &[u8], pk: &[u8], hdr: &OB, msgs: &OV, budget: Option<usize>) -> Out<()> {
    with_suite!(s, CS => guard(budget, || {
        let pk = BBSplusPublicKey::from_bytes(pk)?;
        let arr: &[u8; 80] = sig.try_into().map_err(|_| Error::InvalidSignature)?;
        let sig = Signature::<BBSplus<CS>>::from_bytes(arr)?;
        sig.verify(&pk, optv(msgs), opt(hdr))
    }))
}

pub fn sig_roundtrip(s: Suite, sig: &[u8]) -> Out<Vec<u8>> {
    with_suite!(s, CS => guard(None, || {
        let arr: &[u8; 80] = sig.try_into().map_err(|_| Error::InvalidSignature)?;
        let sig = Signature::<BBSplus<CS>>::from_bytes(arr)?;
        Ok(sig.to_bytes().to_vec())
    }))
}

pub fn update(s: Suite, sig: &[u8], sk: &[u8], old: &[u8], new: &[u8], idx: usize, n: usize, budget: Option<usize>) -> Out<Vec<u8>> {
    with_suite!(s, CS => guard(budget, || {
        let sk = BBSplusSecretKey::from_bytes(sk)?;
        let arr: &[u8; 80] = sig.try_into().map_err(|_| Error::InvalidSignature)?;
        let sig = Signature::<BBSplus<CS>>::from_bytes(arr)?;
        Ok(sig.update_signature(&sk, old, new, idx, n)?.to_bytes().to_vec())
    }))
}

/// update_signature with an absurd declared count: only the first `steps` generators are derived
pub fn update_declared(s: Suite, sig: &[u8], sk: &[u8], old: &[u8], new: &[u8], idx: usize, n: usize, steps: usize) -> Out<Vec<u8>> {
    with_suite!(s, CS => guard_lazy(steps, || {
        let sk = BBSplusSecretKey::from_bytes(sk)?;
        let arr: &[u8; 80] = sig.try_into().map_err(|_| Error::InvalidSignature)?;
        let sig = Signature::<BBSplus<CS>>::from_bytes(arr)?;
        Ok(sig.update_signature(&sk, old, new, idx, n)?.to_bytes().to_vec())
    }))
}

pub fn proof_gen(s: Suite, pk: &[u8], sig: &[u8], hdr: &OB, ph: &OB, msgs: &OV, didx: &OI, budget: Option<usize>) -> Out<Vec<u8>> {
    with_suite!(s, CS => guard(budget, || {
        let pk = BBSplusPublicKey::from_bytes(pk)?;
        let p = PoKSignature::<BBSplus<CS>>::proof_gen(&pk, sig, opt(hdr), opt(ph), optv(msgs), opti(didx))?;
        Ok(p.to_bytes())
    }))
}

pub fn proof_verify(s: Suite, proof: &[u8], pk: &[u8], hdr: &OB, ph: &OB, dmsgs: &OV, didx: &OI, budget: Option<usize>) -> Out<()> {
    with_suite!(s, CS => guard(budget, || {
        let pk = BBSplusPublicKey::from_bytes(pk)?;
        let p = PoKSignature::<BBSplus<CS>>::from_bytes(proof)?;
        p.proof_verify(&pk, optv(dmsgs), opti(didx), opt(hdr), opt(ph))
    }))
}
/// the serde path: proofs can also be deserialised from JSON
pub fn proof_verify_json(s: Suite, proof_json: &str, pk: &[u8], hdr: &OB, ph: &OB, dmsgs: &OV, didx: &OI) -> Out<()> {
    with_suite!(s, CS => guard(None, || {
        let pk = BBSplusPublicKey::from_bytes(pk)?;
        let p: PoKSignature<BBSplus<CS>> = serde_json::from_str(proof_json).map_err(|_| Error::InvalidProofOfKnowledgeSignature)?;
        p.proof_verify(&pk, optv(dmsgs), opti(didx), opt(hdr), opt(ph))
    }))
}
/// serde_json decoding of one of the generic artefact types followed by the first thing a caller does with
/// the value (encode it / verify it): Ok(true) if the JSON was accepted, Ok(false)/Err if refused
pub fn json_probe(s: Suite, kind: &str, js: &str, pk: &[u8]) -> Out<bool> {
    with_suite!(s, CS => guard(None, || {
        let pk = BBSplusPublicKey::from_bytes(pk)?;
        match kind {
            "signature" => {
                let Ok(x) = serde_json::from_str::<Signature<BBSplus<CS>>>(js) else { return Ok(false) };
                let _ = x.to_bytes();
                let _ = x.verify(&pk, None, None);
            }
            "blind_signature" => {
                let Ok(x) = serde_json::from_str::<BlindSignature<BBSplus<CS>>>(js) else { return Ok(false) };
                let _ = x.to_bytes();
            }
            "proof" => {
                let Ok(x) = serde_json::from_str::<PoKSignature<BBSplus<CS>>>(js) else { return Ok(false) };
                let _ = x.to_bytes();
                let _ = x.proof_verify(&pk, None, None, None, None);
            }
            "commitment" => {
                let Ok(x) = serde_json::from_str::<Commitment<BBSplus<CS>>>(js) else { return Ok(false) };
                let _ = x.to_bytes();
            }
            _ => return Ok(false),
        }
        Ok(true)
    }))
}
pub fn proof_to_json(s: Suite, proof: &[u8]) -> Out<String> {
    with_suite!(s, CS => guard(None, || {
        let p = PoKSignature::<BBSplus<CS>>::from_bytes(proof)?;
        Ok(serde_json::to_string(&p).unwrap())
    }))
}
pub fn proof_roundtrip(s: Suite, proof: &[u8]) -> Out<Vec<u8>> {
    with_suite!(s, CS => guard(None, || Ok(PoKSignature::<BBSplus<CS>>::from_bytes(proof)?.to_bytes())))
}

pub fn commit(s: Suite, cms: &OV, budget: Option<usize>) -> Out<(Vec<u8>, Vec<u8>)> {
    with_suite!(s, CS => guard(budget, || {
        let (c, b) = Commitment::<BBSplus<CS>>::commit(optv(cms))?;
        Ok((c.to_bytes(), b.to_bytes().to_vec()))
    }))
}
pub fn commit_roundtrip(s: Suite, c: &[u8]) -> Out<Vec<u8>> {
    with_suite!(s, CS => guard(None, || Ok(Commitment::<BBSplus<CS>>::from_bytes(c)?.to_bytes())))
}

pub fn blind_sign(s: Suite, sk: &[u8], pk: &[u8], commit: &OB, hdr: &OB, msgs: &OV, budget: Option<usize>) -> Out<Vec<u8>> {
    with_suite!(s, CS => guard(budget, || {
        let sk = BBSplusSecretKey::from_bytes(sk)?;
        let pk = BBSplusPublicKey::from_bytes(pk)?;
        let sig = BlindSignature::<BBSplus<CS>>::blind_sign(&sk, &pk, opt(commit), opt(hdr), optv(msgs))?;
        Ok(sig.to_bytes().to_vec())
    }))
}

fn blind_factor(b: &OB) -> Result<Option<BlindFactor>, Error> {
    match b {
        None => Ok(None),
        Some(x) => {
            let arr: &[u8; 32] = x.as_slice().try_into().map_err(|_| Error::Unspecified)?;
            Ok(Some(BlindFactor::from_bytes(arr)?))
        }
    }
}

pub fn verify_blind(s: Suite, sig: &[u8], pk: &[u8], hdr: &OB, msgs: &OV, cms: &OV, blind: &OB, budget: Option<usize>) -> Out<()> {
    with_suite!(s, CS => guard(budget, || {
        let pk = BBSplusPublicKey::from_bytes(pk)?;
        let arr: &[u8; 80] = sig.try_into().map_err(|_| Error::InvalidSignature)?;
        let sig = BlindSignature::<BBSplus<CS>>::from_bytes(arr)?;
        let bf = blind_factor(blind)?;
        sig.verify_blind_sign(&pk, opt(hdr), optv(msgs), optv(cms), bf.as_ref())
    }))
}

pub fn blind_proof_gen(s: Suite, pk: &[u8], sig: &[u8], hdr: &OB, ph: &OB, msgs: &OV, cms: &OV, didx: &OI, dcidx: &OI, blind: &OB, budget: Option<usize>) -> Out<Vec<u8>> {
    with_suite!(s, CS => guard(budget, || {
        let pk = BBSplusPublicKey::from_bytes(pk)?;
        let bf = blind_factor(blind)?;
        let p = PoKSignature::<BBSplus<CS>>::blind_proof_gen(&pk, sig, opt(hdr), opt(ph), optv(msgs), optv(cms), opti(didx), opti(dcidx), bf.as_ref())?;
        Ok(p.to_bytes())
    }))
}

pub fn blind_proof_verify(s: Suite, proof: &[u8], pk: &[u8], hdr: &OB, ph: &OB, l: Option<usize>, dmsgs: &OV, dcmsgs: &OV, didx: &OI, dcidx: &OI, budget: Option<usize>) -> Out<()> {
    with_suite!(s, CS => guard(budget, || {
        let pk = BBSplusPublicKey::from_bytes(pk)?;
        let p = PoKSignature::<BBSplus<CS>>::from_bytes(proof)?;
        p.blind_proof_verify(&pk, opt(hdr), opt(ph), l, optv(dmsgs), optv(dcmsgs), opti(didx), opti(dcidx))
    }))
}

pub fn iface_of(op: &str) -> Iface {
    match op {
        "VerifyBlind" | "BlindSign" | "BlindProofGen" | "BlindProofVerify" | "Commit" => Iface::Blind,
        _ => Iface::Plain,
    }
}
