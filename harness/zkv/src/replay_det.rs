//! Replay of slice `det` (properties C10, C11-ii): deterministic operations on the
//! grid of argument classes TLC enumerated, compared octet for octet with the
//! concrete evaluation of the specification, from one thread and from 16 threads
//! in shuffled order; generator sets checked for prefix consistency, duplicates,
//! identity, P1 and disjointness across ciphersuites and api ids.

use crate::libapi::{self as lib, Out};
use crate::refimpl::*;
use crate::replay::prg;
use serde_json::{json, Value};
use std::collections::{BTreeMap, HashMap, HashSet};
use zkryptium::bbsplus::ciphersuites::{Bls12381Sha256, Bls12381Shake256};
use zkryptium::utils::message::bbsplus_message::BBSplusMessage;
use zkryptium::utils::util::bbsplus_utils::{hash_to_scalar, ScalarExt};

#[derive(Default)]
pub struct DReport {
    pub cases: usize,
    pub checks: BTreeMap<String, usize>,
    pub mismatches: Vec<Value>,
    pub samples: Vec<Value>,
}
impl DReport {
    fn tick(&mut self, p: &str) {
        *self.checks.entry(p.into()).or_insert(0) += 1;
    }
    fn bad(&mut self, prop: &str, case: &Value, what: String, exp: String, obs: String) {
        self.mismatches.push(json!({"property": prop, "case": case, "what": what, "expected": exp, "observed": obs}));
    }
}

fn api_bytes(r: &Ref, s: Suite, class: &str) -> Option<Vec<u8>> {
    match class {
        "plain" => Some(r.api_id(s, Iface::Plain)),
        "blind" => Some(r.api_id(s, Iface::Blind)),
        "blindgen" => Some(r.blind_gen_api(s)),
        "none" => None,
        "empty" => Some(vec![]),
        "custom" => Some(b"ACME_WALLET_V1_".to_vec()),
        "custom2" => Some(b"ACME_WALLET_V1_X".to_vec()),
        // long api ids that agree on a long prefix (the DSTs built from them exceed 255 octets)
        "long236" => Some(vec![b'a'; 236]),
        "long237b" => Some([vec![b'a'; 236], vec![b'b']].concat()),
        "long237c" => Some([vec![b'a'; 236], vec![b'c']].concat()),
        "long300x" => Some([vec![b'a'; 299], vec![b'x']].concat()),
        "long300y" => Some([vec![b'a'; 299], vec![b'y']].concat()),
        // api ids that are not UTF-8 and differ only in the ill-formed octets (and the replacement character itself)
        "bin_ff" => Some([&[0xffu8, 0x01][..], b"_ID_"].concat()),
        "bin_fe" => Some([&[0xfeu8, 0x01][..], b"_ID_"].concat()),
        "bin_c0" => Some([&[0xc0u8, 0x01][..], b"_ID_"].concat()),
        "bin_fffd" => Some([&[0xefu8, 0xbf, 0xbd, 0x01][..], b"_ID_"].concat()),
        _ => panic!("api class {class}"),
    }
}
fn optlen(seed: u64, label: &str, n: i64) -> Option<Vec<u8>> {
    if n < 0 {
        None
    } else {
        Some(prg(seed, label, n as u64, 0, n as usize))
    }
}

/// the library's output for one case, as a comparable string
fn lib_eval(r: &Ref, c: &Value, s: Suite, seed: u64) -> String {
    match c["kind"].as_str().unwrap() {
        "keygen" => {
            let ikm = prg(seed, "ikm", 1, 0, c["ikm"].as_u64().unwrap() as usize);
            let info = optlen(seed, "info", c["info"].as_i64().unwrap());
            let dst = optlen(seed, "dst", c["dst"].as_i64().unwrap());
            match lib::keygen(s, &ikm, info.as_deref(), dst.as_deref()) {
                Out::Ok((sk, pk)) => format!("Ok:{}:{}", hex::encode(sk), hex::encode(pk)),
                o => o.class().to_string(),
            }
        }
        "h2s" => {
            let msg = prg(seed, "msg", 2, 0, c["msg"].as_u64().unwrap() as usize);
            let dst = prg(seed, "dst", c["dst"].as_u64().unwrap(), 0, c["dst"].as_u64().unwrap() as usize);
            let got = match s {
                Suite::Sha => lib::guard(None, || hash_to_scalar::<Bls12381Sha256>(&msg, &dst)),
                Suite::Shake => lib::guard(None, || hash_to_scalar::<Bls12381Shake256>(&msg, &dst)),
            };
            match got {
                Out::Ok(x) => format!("Ok:{}", hex::encode(x.to_bytes_be())),
                o => o.class().to_string(),
            }
        }
        "mapmsg" => {
            let msg = prg(seed, "msg", 3, 0, c["msg"].as_u64().unwrap() as usize);
            let api = r.api_id(s, Iface::Plain);
            let got = match s {
                Suite::Sha => lib::guard(None, || BBSplusMessage::map_message_to_scalar_as_hash::<Bls12381Sha256>(&msg, &api)),
                Suite::Shake => lib::guard(None, || BBSplusMessage::map_message_to_scalar_as_hash::<Bls12381Shake256>(&msg, &api)),
            };
            match got {
                Out::Ok(x) => format!("Ok:{}", hex::encode(x.to_bytes_be())),
                o => o.class().to_string(),
            }
        }
        "gens" => {
            let api = api_bytes(r, s, c["api"].as_str().unwrap());
            let n = c["n"].as_u64().unwrap() as usize;
            match lib::generators(s, n, api.as_deref(), Some(4 * n + 16)) {
                Out::Ok((bp, vals)) => format!("Ok:{}:{}", hex::encode(bp), vals.iter().map(hex::encode).collect::<Vec<_>>().join(",")),
                o => o.detail(),
            }
        }
        "prepare" => {
            use zkryptium::bbsplus::blind::prepare_parameters;
            use bls12_381_plus::group::Curve;
            let api = api_bytes(r, s, c["api"].as_str().unwrap());
            let l = c["L"].as_u64().unwrap() as usize;
            let m = c["M"].as_u64().unwrap() as usize;
            let msgs: Vec<Vec<u8>> = (0..l).map(|i| prg(seed, "pm", i as u64, 0, 5 + i)).collect();
            let cms: Vec<Vec<u8>> = (0..m).map(|i| prg(seed, "pc", i as u64, 0, 6 + i)).collect();
            let got = match s {
                Suite::Sha => lib::guard(Some(4 * (l + m + 2) + 16), || prepare_parameters::<Bls12381Sha256>(Some(&msgs), Some(&cms), l + 1, m + 1, None, api.as_deref())),
                Suite::Shake => lib::guard(Some(4 * (l + m + 2) + 16), || prepare_parameters::<Bls12381Shake256>(Some(&msgs), Some(&cms), l + 1, m + 1, None, api.as_deref())),
            };
            match got {
                Out::Ok((sc, g)) => format!("Ok:{}:{}", sc.iter().map(|x| hex::encode(x.to_bytes_be())).collect::<Vec<_>>().join(","),
                    g.values.iter().map(|p| hex::encode(p.to_affine().to_compressed())).collect::<Vec<_>>().join(",")),
                o => o.detail(),
            }
        }
        k => panic!("kind {k}"),
    }
}

fn ref_eval(r: &Ref, c: &Value, s: Suite, seed: u64) -> String {
    match c["kind"].as_str().unwrap() {
        "keygen" => {
            let ikm = prg(seed, "ikm", 1, 0, c["ikm"].as_u64().unwrap() as usize);
            let info = optlen(seed, "info", c["info"].as_i64().unwrap());
            let dst = optlen(seed, "dst", c["dst"].as_i64().unwrap());
            match r.keygen(s, &ikm, &info.unwrap_or_default(), dst.as_deref()) {
                Ok(sk) => format!("Ok:{}:{}", hex::encode(sc_bytes(&sk)), hex::encode(pk_bytes(&r.sk_to_pk(&sk)))),
                Err(_) => "Err".to_string(),
            }
        }
        "h2s" => {
            let msg = prg(seed, "msg", 2, 0, c["msg"].as_u64().unwrap() as usize);
            let dst = prg(seed, "dst", c["dst"].as_u64().unwrap(), 0, c["dst"].as_u64().unwrap() as usize);
            match r.h2s(s, &msg, &dst) {
                Ok(x) => format!("Ok:{}", hex::encode(sc_bytes(&x))),
                Err(_) => "Err".to_string(),
            }
        }
        "mapmsg" => {
            let msg = prg(seed, "msg", 3, 0, c["msg"].as_u64().unwrap() as usize);
            format!("Ok:{}", hex::encode(sc_bytes(&r.msg_scalar(s, &r.api_id(s, Iface::Plain), &msg))))
        }
        "gens" => {
            let api = api_bytes(r, s, c["api"].as_str().unwrap()).unwrap_or_default();
            let n = c["n"].as_u64().unwrap() as usize;
            let g = r.generators(s, &api, n);
            format!("Ok:{}:{}", hex::encode(pt_bytes(&r.p1(s))), g.iter().map(|p| hex::encode(pt_bytes(p))).collect::<Vec<_>>().join(","))
        }
        "prepare" => {
            let api = api_bytes(r, s, c["api"].as_str().unwrap()).unwrap_or_default();
            let l = c["L"].as_u64().unwrap() as usize;
            let m = c["M"].as_u64().unwrap() as usize;
            let msgs: Vec<Vec<u8>> = (0..l).map(|i| prg(seed, "pm", i as u64, 0, 5 + i)).collect();
            let cms: Vec<Vec<u8>> = (0..m).map(|i| prg(seed, "pc", i as u64, 0, 6 + i)).collect();
            let mut sc = r.msg_scalars(s, &api, &msgs);
            sc.extend(r.msg_scalars(s, &api, &cms));
            let mut g = r.generators(s, &api, l + 1);
            g.extend(r.generators(s, &[&r.lay.blind_gen_prefix.as_bytes()[..], &api[..]].concat(), m + 1));
            format!("Ok:{}:{}", sc.iter().map(|x| hex::encode(sc_bytes(x))).collect::<Vec<_>>().join(","), g.iter().map(|p| hex::encode(pt_bytes(p))).collect::<Vec<_>>().join(","))
        }
        k => panic!("kind {k}"),
    }
}

pub fn run(r: &Ref, cases: &[Value], seed: u64, threads: usize) -> DReport {
    let mut rep = DReport::default();
    // single thread, both suites interleaved (a cache keyed too coarsely shows up here)
    let mut single: HashMap<(usize, Suite), String> = HashMap::new();
    let mut gensets: HashMap<(Suite, String), Vec<String>> = HashMap::new();
    for (ci, c) in cases.iter().enumerate() {
        rep.cases += 1;
        for s in Suite::all() {
            let got = lib_eval(r, c, s, seed);
            let exp = ref_eval(r, c, s, seed);
            rep.tick("C10");
            if rep.samples.len() < 3 {
                rep.samples.push(json!({"case": c, "suite": s.name(), "library": &got[..got.len().min(120)]}));
            }
            let spec_res = c["res"].as_str().unwrap();
            if got != exp {
                rep.bad("C10", c, format!("{} under {}: library output differs from the specification's", c["kind"], s.name()), exp.chars().take(200).collect(), got.chars().take(200).collect());
            }
            if (spec_res == "Ok") != got.starts_with("Ok") {
                rep.bad("C10", c, format!("{} under {}: decision differs from the specification's size limits", c["kind"], s.name()), spec_res.to_string(), got.chars().take(40).collect());
            }
            if c["kind"] == "prepare" && got.starts_with("Ok:") {
                let parts: Vec<&str> = got.splitn(3, ':').collect();
                let vals: Vec<&str> = parts[2].split(',').collect();
                let set: HashSet<&&str> = vals.iter().collect();
                rep.tick("C11");
                if set.len() != vals.len() {
                    rep.bad("C11", c, format!("prepare_parameters under {}: message generators and committed-message generators share a point", s.name()), "disjoint, duplicate-free".into(), "repeated point".into());
                }
            }
            if c["kind"] == "gens" && got.starts_with("Ok:") {
                let parts: Vec<&str> = got.splitn(3, ':').collect();
                let vals: Vec<String> = if parts[2].is_empty() { vec![] } else { parts[2].split(',').map(|x| x.to_string()).collect() };
                let n = c["n"].as_u64().unwrap() as usize;
                rep.tick("C11");
                if vals.len() != n {
                    rep.bad("C11", c, "generator count".into(), n.to_string(), vals.len().to_string());
                }
                let set: HashSet<&String> = vals.iter().collect();
                let identity = format!("c0{}", "00".repeat(47));
                if set.len() != vals.len() || vals.iter().any(|v| *v == identity || v == parts[1]) {
                    rep.bad("C11", c, format!("generator set under {} contains a repeated point, the identity or P1", s.name()), "duplicate-free, identity-free, P1-free".into(), "violated".into());
                }
                let apic = c["api"].as_str().unwrap();
                let key = (s, if apic == "none" { "empty".to_string() } else { apic.to_string() });
                let e = gensets.entry(key).or_default();
                // prefix consistency: the first k generators do not depend on how many are requested
                let k = e.len().min(vals.len());
                rep.tick("C11");
                if e[..k] != vals[..k] {
                    rep.bad("C11", c, format!("generators under {} are not prefix consistent", s.name()), e[..k].join(","), vals[..k].join(","));
                }
                if vals.len() > e.len() {
                    *e = vals.clone();
                }
            }
            single.insert((ci, s), got);
        }
    }
    // disjointness across (suite, api id)
    let keys: Vec<&(Suite, String)> = gensets.keys().collect();
    for i in 0..keys.len() {
        for j in i + 1..keys.len() {
            rep.tick("C11");
            let a: HashSet<&String> = gensets[keys[i]].iter().collect();
            if gensets[keys[j]].iter().any(|x| a.contains(x)) {
                rep.bad("C11", &json!({"a": format!("{:?}", keys[i]), "b": format!("{:?}", keys[j])}), "generator sets of different ciphersuites / api ids share an element".into(), "disjoint".into(), "shared element".into());
            }
        }
    }
    // the same calls from several threads in shuffled order must give the single-thread octets
    let order: Vec<usize> = {
        let mut v: Vec<usize> = (0..cases.len()).collect();
        let mut x = seed | 1;
        for i in (1..v.len()).rev() {
            x ^= x << 13;
            x ^= x >> 7;
            x ^= x << 17;
            v.swap(i, (x % (i as u64 + 1)) as usize);
        }
        v
    };
    let bad = std::sync::Mutex::new(Vec::<Value>::new());
    let n_checks = std::sync::atomic::AtomicUsize::new(0);
    std::thread::scope(|sc| {
        for t in 0..threads {
            let (order, single, bad, n_checks) = (&order, &single, &bad, &n_checks);
            sc.spawn(move || {
                for k in 0..order.len() {
                    let ci = order[(k * 7 + t * 13) % order.len()];
                    if (ci + t) % 4 != 0 {
                        continue; // every thread covers a quarter of the grid, in its own order
                    }
                    for s in Suite::all() {
                        let got = lib_eval(r, &cases[ci], s, seed);
                        n_checks.fetch_add(1, std::sync::atomic::Ordering::Relaxed);
                        if got != single[&(ci, s)] {
                            bad.lock().unwrap().push(json!({"property": "C10", "case": cases[ci], "what": format!("thread {t}: output differs from the single-thread output"),
                                "expected": single[&(ci, s)].chars().take(120).collect::<String>(), "observed": got.chars().take(120).collect::<String>()}));
                        }
                    }
                }
            });
        }
    });
    *rep.checks.entry("C10".into()).or_insert(0) += n_checks.load(std::sync::atomic::Ordering::Relaxed);
    rep.mismatches.extend(bad.into_inner().unwrap());
    rep
}
