//! Conformance direction 2 (DESIGN §3.4): a randomised driver runs the real
//! library far beyond the bounds TLC can enumerate and logs one event per public
//! call (abstract identities assigned here, arguments, decision, cheap
//! observations).  TLC validates the log against Trace_Api.tla.
//!
//! The driver never predicts results: it only produces interesting calls
//! (honest ones and single edits of honest ones); the specification decides.

use crate::libapi::{self as lib, Out, OB, OI, OV};
use crate::refimpl::*;
use crate::replay::prg;
use bls12_381_plus::{G1Projective, Scalar};
use group::Group;
use serde_json::{json, Value};
use std::collections::HashMap;

pub struct Rng(u64);
impl Rng {
    pub fn new(seed: u64) -> Rng {
        Rng(seed.wrapping_mul(0x9E3779B97F4A7C15) ^ 0xD1B54A32D192ED03)
    }
    pub fn next(&mut self) -> u64 {
        // splitmix64
        self.0 = self.0.wrapping_add(0x9E3779B97F4A7C15);
        let mut z = self.0;
        z = (z ^ (z >> 30)).wrapping_mul(0xBF58476D1CE4E5B9);
        z = (z ^ (z >> 27)).wrapping_mul(0x94D049BB133111EB);
        z ^ (z >> 31)
    }
    pub fn below(&mut self, n: usize) -> usize {
        if n == 0 {
            0
        } else {
            (self.next() % n as u64) as usize
        }
    }
    pub fn chance(&mut self, pct: usize) -> bool {
        self.below(100) < pct
    }
}

#[derive(Clone)]
struct DSig {
    tampered: bool,
    bytes: Vec<u8>,
    s: Suite,
    iface: Iface,
    key: usize,
    hdr: Vec<u8>,
    msgs: Vec<Vec<u8>>,
    cm: usize,
    cms: Vec<Vec<u8>>,
}
#[derive(Clone)]
struct DProof {
    tampered: bool,
    bytes: Vec<u8>,
    s: Suite,
    iface: Iface,
    key: usize,
    hdr: Vec<u8>,
    ph: Vec<u8>,
    msgs: Vec<Vec<u8>>,
    cms: Vec<Vec<u8>>,
    d: Vec<usize>,
    cd: Vec<usize>,
}
#[derive(Clone)]
struct DCommit {
    tampered: bool,
    bytes: Vec<u8>,
    blind: Vec<u8>,
    s: Suite,
    cms: Vec<Vec<u8>>,
}
#[derive(Clone)]
enum DObj {
    Sig(DSig),
    Proof(DProof),
    Commit(DCommit),
}

pub struct Driver<'a> {
    r: &'a Ref,
    rng: Rng,
    seed: u64,
    ids: HashMap<Vec<u8>, i64>,
    pool: Vec<Vec<u8>>, // contents that get reused (duplicates, equal messages)
    keys: Vec<(Vec<u8>, Vec<u8>)>,
    objs: Vec<DObj>,
    max_l: usize,
    pub family: String,
    pub events: Vec<Value>,
}

fn other(s: Suite) -> Suite {
    if s == Suite::Sha {
        Suite::Shake
    } else {
        Suite::Sha
    }
}

impl<'a> Driver<'a> {
    pub fn new(r: &'a Ref, seed: u64, max_l: usize) -> Driver<'a> {
        Driver { r, rng: Rng::new(seed), seed, ids: HashMap::new(), pool: vec![], keys: vec![], objs: vec![], max_l, family: "all".to_string(), events: vec![] }
    }

    // ---- abstract identities ------------------------------------------------
    fn abs(&mut self, b: &[u8]) -> Value {
        if b.is_empty() {
            return json!([]);
        }
        let n = self.ids.len() as i64 + 1;
        let id = *self.ids.entry(b.to_vec()).or_insert(n);
        json!([id])
    }
    fn abs_o(&mut self, b: &OB) -> Value {
        match b {
            None => json!([-1]),
            Some(x) => self.abs(x),
        }
    }
    fn abs_v(&mut self, v: &OV) -> Value {
        match v {
            None => json!([[-1]]),
            Some(ms) => Value::Array(ms.iter().map(|m| self.abs(m)).collect()),
        }
    }
    fn abs_i(&self, v: &OI) -> Value {
        match v {
            None => json!([-1]),
            Some(ix) => json!(ix),
        }
    }

    // ---- random material ------------------------------------------------------
    fn fresh(&mut self, maxlen: usize) -> Vec<u8> {
        let len = match self.rng.below(10) {
            0 => 0,
            1..=5 => 1 + self.rng.below(40),
            6..=7 => 32,
            8 => [255usize, 256, 257][self.rng.below(3)],
            _ => 1 + self.rng.below(maxlen.max(1)),
        };
        let t = self.rng.next();
        prg(self.seed, "content", t, 0, len)
    }
    fn content(&mut self) -> Vec<u8> {
        if !self.pool.is_empty() && self.rng.chance(55) {
            let i = self.rng.below(self.pool.len());
            return self.pool[i].clone();
        }
        let c = self.fresh(600);
        if self.pool.len() < 12 {
            self.pool.push(c.clone());
        }
        c
    }
    fn length(&mut self) -> usize {
        let l = match self.rng.below(100) {
            0..=64 => self.rng.below(5),
            65..=87 => 5 + self.rng.below(8),
            88..=96 => 13 + self.rng.below(28),
            _ => [31usize, 32, 33, 64, 127, 128, 129, 130, 255, 256, 257, 300, 511, 513, 1000, 2000][self.rng.below(16)],
        };
        l.min(self.max_l)
    }
    fn vector(&mut self) -> Vec<Vec<u8>> {
        let l = self.length();
        (0..l).map(|_| self.content()).collect()
    }
    fn small_vector(&mut self, max: usize) -> Vec<Vec<u8>> {
        let l = self.rng.below(max + 1);
        (0..l).map(|_| self.content()).collect()
    }
    fn opt_hdr(&mut self) -> OB {
        match self.rng.below(6) {
            0 => None,
            1 => Some(vec![]),
            _ => Some(self.content()),
        }
    }
    /// present a (canonical) octet string as an optional argument
    fn present(&mut self, b: &[u8]) -> OB {
        if b.is_empty() && self.rng.chance(50) {
            None
        } else {
            Some(b.to_vec())
        }
    }
    fn present_v(&mut self, v: &[Vec<u8>]) -> OV {
        if v.is_empty() && self.rng.chance(50) {
            None
        } else {
            Some(v.to_vec())
        }
    }
    fn present_i(&mut self, v: &[usize]) -> OI {
        if v.is_empty() && self.rng.chance(50) {
            None
        } else {
            Some(v.to_vec())
        }
    }
    fn suite(&mut self) -> Suite {
        if self.rng.chance(50) {
            Suite::Sha
        } else {
            Suite::Shake
        }
    }
    fn subset(&mut self, n: usize) -> Vec<usize> {
        let mode = self.rng.below(5);
        (0..n)
            .filter(|_| match mode {
                0 => false,
                1 => true,
                _ => self.rng.chance(50),
            })
            .collect()
    }
    fn edit_vec(&mut self, v: &[Vec<u8>]) -> Vec<Vec<u8>> {
        let mut w = v.to_vec();
        let c = self.content();
        match self.rng.below(5) {
            0 if !w.is_empty() => {
                let j = self.rng.below(w.len());
                w[j] = if w[j] == c { self.fresh(50) } else { c };
            }
            1 => {
                let j = self.rng.below(w.len() + 1);
                w.insert(j, c);
            }
            2 if !w.is_empty() => {
                let j = self.rng.below(w.len());
                w.remove(j);
            }
            3 if w.len() >= 2 => {
                let j = self.rng.below(w.len() - 1);
                w.swap(j, j + 1);
            }
            4 if !w.is_empty() => {
                // a proper prefix / extension of a message
                let j = self.rng.below(w.len());
                if w[j].len() > 1 && self.rng.chance(50) {
                    let n = w[j].len() - 1;
                    w[j].truncate(n);
                } else {
                    w[j].push(0);
                }
            }
            _ => w.push(c),
        }
        w
    }
    fn random_point(&mut self) -> Vec<u8> {
        let t = self.rng.next();
        let s = Scalar::from_okm(&prg(self.seed, "pt", t, 0, 48).try_into().unwrap());
        pt_bytes(&(G1Projective::generator() * s)).to_vec()
    }
    fn random_scalar(&mut self) -> Vec<u8> {
        let t = self.rng.next();
        sc_bytes(&Scalar::from_okm(&prg(self.seed, "sc", t, 0, 48).try_into().unwrap())).to_vec()
    }

    fn log(&mut self, op: &str, args: Value, res: &str, out: usize, obs: Value) {
        self.events.push(json!({"op": op, "args": args, "res": res, "out": out, "obs": obs}));
    }
    fn sigs(&self) -> Vec<usize> {
        (0..self.objs.len()).filter(|&i| matches!(self.objs[i], DObj::Sig(_))).collect()
    }
    fn proofs(&self) -> Vec<usize> {
        (0..self.objs.len()).filter(|&i| matches!(self.objs[i], DObj::Proof(_))).collect()
    }
    fn commits(&self) -> Vec<usize> {
        (0..self.objs.len()).filter(|&i| matches!(self.objs[i], DObj::Commit(_))).collect()
    }
    fn pick(&mut self, v: &[usize]) -> Option<usize> {
        if v.is_empty() {
            None
        } else {
            // prefer recent artefacts
            let k = if self.rng.chance(60) { v.len() - 1 - self.rng.below(v.len().min(3)) } else { self.rng.below(v.len()) };
            Some(v[k])
        }
    }
    fn budget(size: usize) -> Option<usize> {
        Some(4 * size + 16)
    }

    // ---- operations ----------------------------------------------------------------
    pub fn reset(&mut self) {
        self.ids.clear();
        self.pool.clear();
        // one long content per run (a message or header of 64 KiB and more: the expand_message input has no bound)
        let t = self.rng.next();
        let big = [65535usize, 65536, 70000][self.rng.below(3)];
        self.pool.push(prg(self.seed, "big-content", t, 0, big));
        self.keys.clear();
        self.objs.clear();
        self.log("Reset", json!({"x": 0}), "Ok", 0, json!({}));
        for _ in 0..2 {
            self.keygen();
        }
    }
    fn keygen(&mut self) {
        let id = self.keys.len() + 1;
        let s = self.suite();
        let got = if self.rng.chance(30) {
            lib::key_random(s)
        } else {
            let n = 32 + self.rng.below(40);
            let t = self.rng.next();
            let ikm = prg(self.seed, "ikm", t, 0, n);
            lib::keygen(s, &ikm, None, None)
        };
        let res = got.class();
        if let Out::Ok(k) = got {
            self.keys.push(k);
        }
        self.log("KeyGen", json!({"key": id}), res, 0, json!({}));
    }
    fn a_key(&mut self) -> usize {
        1 + self.rng.below(self.keys.len())
    }

    fn sign(&mut self) {
        let key = self.a_key();
        let s = self.suite();
        let hdr = self.opt_hdr();
        let v = self.vector();
        let msgs = self.present_v(&v);
        let (sk, pk) = self.keys[key - 1].clone();
        let got = lib::sign(s, &sk, &pk, &hdr, &msgs, Self::budget(v.len() + 1));
        let args = json!({"key": key, "s": s.name(), "hdr": self.abs_o(&hdr), "msgs": self.abs_v(&msgs)});
        let out = self.objs.len() + 1;
        let res = got.class();
        if let Out::Ok(bytes) = got {
            self.objs.push(DObj::Sig(DSig { tampered: false, bytes, s, iface: Iface::Plain, key, hdr: hdr.clone().unwrap_or_default(), msgs: v, cm: 0, cms: vec![] }));
        }
        self.log("Sign", args, res, out, json!({}));
    }

    fn verify(&mut self) {
        let Some(h) = self.pick(&self.sigs()) else { return self.sign() };
        let DObj::Sig(sg) = self.objs[h].clone() else { unreachable!() };
        let mut key = sg.key;
        let mut s = sg.s;
        let mut hdr = self.present(&sg.hdr);
        let mut v = sg.msgs.clone();
        if sg.iface == Iface::Blind && self.rng.chance(50) {
            v.extend(sg.cms.clone());
        }
        if self.rng.chance(55) {
            match self.rng.below(6) {
                0 | 1 => v = self.edit_vec(&v),
                2 => hdr = Some(self.content()),
                3 => hdr = if sg.hdr.is_empty() { Some(self.content()) } else { None },
                4 => key = 1 + (key % self.keys.len()),
                _ => s = other(s),
            }
        }
        let msgs = self.present_v(&v);
        let pk = self.keys[key - 1].1.clone();
        let got = lib::verify(s, &sg.bytes, &pk, &hdr, &msgs, Self::budget(v.len() + 1));
        let args = json!({"sig": h + 1, "key": key, "s": s.name(), "hdr": self.abs_o(&hdr), "msgs": self.abs_v(&msgs)});
        self.log("Verify", args, got.class(), 0, json!({"detail": got.detail()}));
    }

    fn roundtrip(&mut self) {
        if self.objs.is_empty() {
            return;
        }
        let h = self.rng.below(self.objs.len());
        let (got, orig) = match &self.objs[h] {
            DObj::Sig(x) => (lib::sig_roundtrip(x.s, &x.bytes), x.bytes.clone()),
            DObj::Proof(x) => (lib::proof_roundtrip(x.s, &x.bytes), x.bytes.clone()),
            DObj::Commit(x) => (lib::commit_roundtrip(x.s, &x.bytes), x.bytes.clone()),
        };
        let same = matches!(&got, Out::Ok(b) if *b == orig);
        self.log("RoundTrip", json!({"obj": h + 1}), got.class(), h + 1, json!({"same": same}));
    }

    fn tamper(&mut self) {
        if self.objs.is_empty() {
            return;
        }
        let h = self.rng.below(self.objs.len());
        let (npts, mut bytes, was) = match &self.objs[h] {
            DObj::Sig(x) => (1, x.bytes.clone(), x.tampered),
            DObj::Proof(x) => (3, x.bytes.clone(), x.tampered),
            DObj::Commit(x) => (1, x.bytes.clone(), x.tampered),
        };
        if was {
            return;
        }
        let nsc = (bytes.len() - 48 * npts) / 32;
        let is_sig = matches!(self.objs[h], DObj::Sig(_));
        let mut fields: Vec<usize> = vec![];
        let mut dl = 0i64;
        match self.rng.below(if is_sig { 2 } else { 4 }) {
            0 => fields.push(101 + self.rng.below(npts)),
            1 => fields.push(1 + self.rng.below(nsc)),
            2 => dl = 1,
            _ => dl = if nsc >= 1 { -1 } else { 1 },
        }
        for &f in &fields {
            if f > 100 {
                let j = f - 101;
                let p = self.random_point();
                bytes[48 * j..48 * (j + 1)].copy_from_slice(&p);
            } else {
                let off = 48 * npts + 32 * (f - 1);
                let sc = self.random_scalar();
                bytes[off..off + 32].copy_from_slice(&sc);
            }
        }
        if dl == 1 {
            let sc = self.random_scalar();
            bytes.extend_from_slice(&sc);
        } else if dl == -1 {
            let n = bytes.len();
            bytes.truncate(n - 32);
        }
        let new = match self.objs[h].clone() {
            DObj::Sig(mut x) => {
                x.bytes = bytes;
                x.tampered = true;
                DObj::Sig(x)
            }
            DObj::Proof(mut x) => {
                x.bytes = bytes;
                x.tampered = true;
                DObj::Proof(x)
            }
            DObj::Commit(mut x) => {
                x.bytes = bytes;
                x.tampered = true;
                DObj::Commit(x)
            }
        };
        self.objs.push(new);
        self.log("Tamper", json!({"obj": h + 1, "fields": fields, "dl": dl}), "Ok", self.objs.len(), json!({}));
    }

    fn update(&mut self) {
        let cands: Vec<usize> = self.sigs().into_iter().filter(|&i| matches!(&self.objs[i], DObj::Sig(x) if x.iface == Iface::Plain && !x.msgs.is_empty())).collect();
        let Some(h) = self.pick(&cands) else { return self.sign() };
        let DObj::Sig(sg) = self.objs[h].clone() else { unreachable!() };
        // tampered signatures are not updated (Api!Update requires an untampered artefact)
        if sg.tampered {
            return;
        }
        let l = sg.msgs.len();
        let mut idx = self.rng.below(l);
        let mut n = l;
        let mut old = sg.msgs[idx].clone();
        let new = self.content();
        let s = if self.rng.chance(8) { other(sg.s) } else { sg.s };
        match self.rng.below(10) {
            0 => idx = l,
            1 => idx = l + 1 + self.rng.below(3),
            2 => {
                old = self.content();
            }
            3 => {
                // proper prefix / extension of the real old value
                if old.len() > 1 {
                    old.pop();
                } else {
                    old.push(7);
                }
            }
            4 => n = l + 1,
            _ => {}
        }
        let sk = self.keys[sg.key - 1].0.clone();
        let got = lib::update(s, &sg.bytes, &sk, &old, &new, idx, n, Self::budget(n + 2));
        let args = json!({"sig": h + 1, "key": sg.key, "s": s.name(), "old": self.abs(&old), "new": self.abs(&new), "idx": idx, "n": n});
        let out = self.objs.len() + 1;
        let res = got.class();
        if let Out::Ok(bytes) = got {
            let mut x = sg.clone();
            x.bytes = bytes;
            if idx < x.msgs.len() {
                x.msgs[idx] = new.clone();
            }
            self.objs.push(DObj::Sig(x));
        }
        self.log("Update", args, res, out, json!({}));
    }


    fn proof_gen(&mut self) {
        let cands: Vec<usize> = self.sigs().into_iter().filter(|&i| matches!(&self.objs[i], DObj::Sig(x) if x.iface == Iface::Plain)).collect();
        let Some(h) = self.pick(&cands) else { return self.sign() };
        let DObj::Sig(sg) = self.objs[h].clone() else { unreachable!() };
        let mut v = sg.msgs.clone();
        let mut hdr = self.present(&sg.hdr);
        let ph = self.opt_hdr();
        let mut key = sg.key;
        if self.rng.chance(12) {
            match self.rng.below(3) {
                0 => v = self.edit_vec(&v),
                1 => hdr = Some(self.content()),
                _ => key = 1 + (key % self.keys.len()),
            }
        }
        let mut d = self.subset(v.len());
        if self.rng.chance(6) {
            d.push(v.len() + self.rng.below(2)); // out of range
        }
        let mut dlist = d.clone();
        if self.rng.chance(10) && !dlist.is_empty() {
            dlist.reverse();
        }
        if self.rng.chance(8) && !dlist.is_empty() {
            dlist.push(dlist[0]);
        }
        let didx = self.present_i(&dlist);
        let msgs = self.present_v(&v);
        let pk = self.keys[key - 1].1.clone();
        let got = lib::proof_gen(sg.s, &pk, &sg.bytes, &hdr, &ph, &msgs, &didx, Self::budget(v.len() + 1));
        let args = json!({"sig": h + 1, "key": key, "s": sg.s.name(), "hdr": self.abs_o(&hdr), "ph": self.abs_o(&ph), "msgs": self.abs_v(&msgs), "didx": self.abs_i(&didx)});
        let out = self.objs.len() + 1;
        let res = got.class();
        let mut obs = json!({});
        if let Out::Ok(bytes) = got {
            obs = json!({"len": bytes.len()});
            d.sort();
            d.dedup();
            self.objs.push(DObj::Proof(DProof { tampered: false, bytes, s: sg.s, iface: Iface::Plain, key, hdr: hdr.clone().unwrap_or_default(), ph: ph.clone().unwrap_or_default(), msgs: v, cms: vec![], d, cd: vec![] }));
        }
        self.log("ProofGen", args, res, out, obs);
    }

    fn proof_verify(&mut self) {
        let cands: Vec<usize> = self.proofs().into_iter().filter(|&i| matches!(&self.objs[i], DObj::Proof(x) if x.iface == Iface::Plain || true)).collect();
        let Some(h) = self.pick(&cands) else { return self.proof_gen() };
        let DObj::Proof(p) = self.objs[h].clone() else { unreachable!() };
        if p.iface == Iface::Blind && self.rng.chance(85) {
            return self.blind_proof_verify_of(h);
        }
        let full: Vec<Vec<u8>> = if p.iface == Iface::Plain { p.msgs.clone() } else { p.msgs.iter().cloned().chain(std::iter::once(vec![0xbb])).chain(p.cms.iter().cloned()).collect() };
        let mut ix: Vec<usize> = p.d.clone();
        let mut dm: Vec<Vec<u8>> = ix.iter().map(|&i| full[i].clone()).collect();
        let mut hdr = self.present(&p.hdr);
        let mut ph = self.present(&p.ph);
        let mut key = p.key;
        let mut s = p.s;
        if self.rng.chance(55) {
            match self.rng.below(10) {
                0 if !dm.is_empty() => {
                    let j = self.rng.below(dm.len());
                    let c = self.content();
                    dm[j] = if dm[j] == c { self.fresh(40) } else { c };
                }
                1 if !ix.is_empty() => {
                    let j = self.rng.below(ix.len());
                    ix[j] += 1;
                }
                2 if !ix.is_empty() => {
                    let j = self.rng.below(ix.len());
                    ix.remove(j);
                    dm.remove(j);
                }
                3 => {
                    // disclose one more position with its true message
                    if let Some(i) = (0..full.len()).find(|i| !ix.contains(i)) {
                        let pos = ix.iter().position(|&x| x > i).unwrap_or(ix.len());
                        ix.insert(pos, i);
                        dm.insert(pos, full[i].clone());
                    }
                }
                4 => dm.push(self.content()),
                5 if !ix.is_empty() => {
                    // repeated index with a forged message
                    let last = *ix.last().unwrap();
                    ix.push(last);
                    let c = self.content();
                    if self.rng.chance(50) {
                        dm.push(c);
                    } else {
                        let n = dm.len();
                        dm.insert(n - 1, c);
                    }
                }
                6 => hdr = Some(self.content()),
                7 => ph = Some(self.content()),
                8 => key = 1 + (key % self.keys.len()),
                _ => s = other(s),
            }
        }
        let dmsgs = self.present_v(&dm);
        let didx = self.present_i(&ix);
        let pk = self.keys[key - 1].1.clone();
        let got = lib::proof_verify(s, &p.bytes, &pk, &hdr, &ph, &dmsgs, &didx, Self::budget(dm.len() + ix.len() + p.bytes.len() / 32 + 2));
        let args = json!({"proof": h + 1, "key": key, "s": s.name(), "hdr": self.abs_o(&hdr), "ph": self.abs_o(&ph), "dmsgs": self.abs_v(&dmsgs), "didx": self.abs_i(&didx)});
        self.log("ProofVerify", args, got.class(), 0, json!({"detail": got.detail()}));
    }

    fn commit(&mut self) {
        let s = self.suite();
        let mx = if self.rng.chance(90) { 5 } else { 40.min(self.max_l) };
        let v = self.small_vector(mx);
        let cms = self.present_v(&v);
        let got = lib::commit(s, &cms, Self::budget(v.len() + 1));
        let args = json!({"s": s.name(), "cms": self.abs_v(&cms)});
        let out = self.objs.len() + 1;
        let res = got.class();
        let mut obs = json!({});
        if let Out::Ok((bytes, blind)) = got {
            obs = json!({"len": bytes.len()});
            self.objs.push(DObj::Commit(DCommit { tampered: false, bytes, blind, s, cms: v }));
        }
        self.log("Commit", args, res, out, obs);
    }

    fn blind_sign(&mut self) {
        let key = self.a_key();
        let (cm, cs, cbytes, cms): (usize, Option<Suite>, OB, Vec<Vec<u8>>) = match (self.rng.chance(75), self.pick(&self.commits())) {
            (true, Some(c)) => {
                let DObj::Commit(x) = self.objs[c].clone() else { unreachable!() };
                (c + 1, Some(x.s), Some(x.bytes), x.cms)
            }
            _ => (0, None, None, vec![]),
        };
        let s = match cs {
            Some(cs) if self.rng.chance(92) => cs,
            _ => self.suite(),
        };
        let hdr = self.opt_hdr();
        let v = if self.rng.chance(85) { self.small_vector(6) } else { self.vector() };
        let msgs = self.present_v(&v);
        let (sk, pk) = self.keys[key - 1].clone();
        let size = v.len() + cbytes.as_ref().map(|b| b.len() / 32).unwrap_or(0) + 2;
        let got = lib::blind_sign(s, &sk, &pk, &cbytes, &hdr, &msgs, Self::budget(size));
        let args = json!({"key": key, "s": s.name(), "cm": cm, "hdr": self.abs_o(&hdr), "msgs": self.abs_v(&msgs)});
        let out = self.objs.len() + 1;
        let res = got.class();
        if let Out::Ok(bytes) = got {
            self.objs.push(DObj::Sig(DSig { tampered: false, bytes, s, iface: Iface::Blind, key, hdr: hdr.clone().unwrap_or_default(), msgs: v, cm, cms }));
        }
        self.log("BlindSign", args, res, out, json!({}));
    }

    fn blind_of(&mut self, cm: usize) -> (Value, OB) {
        if cm == 0 {
            (json!({"t": "none"}), None)
        } else {
            match &self.objs[cm - 1] {
                DObj::Commit(c) => (json!({"t": "of", "h": cm}), Some(c.blind.clone())),
                _ => unreachable!(),
            }
        }
    }

    fn verify_blind(&mut self) {
        let Some(h) = self.pick(&self.sigs()) else { return self.blind_sign() };
        let DObj::Sig(sg) = self.objs[h].clone() else { unreachable!() };
        let mut key = sg.key;
        let mut s = sg.s;
        let mut hdr = self.present(&sg.hdr);
        let mut v = sg.msgs.clone();
        let mut c = sg.cms.clone();
        let (mut blj, mut bl) = self.blind_of(sg.cm);
        if self.rng.chance(50) {
            match self.rng.below(8) {
                0 => v = self.edit_vec(&v),
                1 => c = self.edit_vec(&c),
                2 => {
                    if sg.cm == 0 {
                        blj = json!({"t": "other"});
                        bl = Some(self.random_scalar());
                    } else {
                        blj = json!({"t": "none"});
                        bl = None;
                    }
                }
                3 => {
                    blj = json!({"t": "other"});
                    bl = Some(self.random_scalar());
                }
                4 => hdr = Some(self.content()),
                5 => key = 1 + (key % self.keys.len()),
                6 => s = other(s),
                _ => {
                    if !c.is_empty() {
                        let m = c.remove(0);
                        v.push(m);
                    }
                }
            }
        }
        let msgs = self.present_v(&v);
        let cms = self.present_v(&c);
        let pk = self.keys[key - 1].1.clone();
        let got = lib::verify_blind(s, &sg.bytes, &pk, &hdr, &msgs, &cms, &bl, Self::budget(v.len() + c.len() + 2));
        let args = json!({"sig": h + 1, "key": key, "s": s.name(), "hdr": self.abs_o(&hdr), "msgs": self.abs_v(&msgs), "cms": self.abs_v(&cms), "bl": blj});
        self.log("VerifyBlind", args, got.class(), 0, json!({"detail": got.detail()}));
    }

    fn blind_proof_gen(&mut self) {
        let cands: Vec<usize> = self.sigs().into_iter().filter(|&i| matches!(&self.objs[i], DObj::Sig(x) if x.iface == Iface::Blind)).collect();
        let Some(h) = self.pick(&cands) else { return self.blind_sign() };
        let DObj::Sig(sg) = self.objs[h].clone() else { unreachable!() };
        let hdr = self.present(&sg.hdr);
        let ph = self.opt_hdr();
        let v = sg.msgs.clone();
        let c = sg.cms.clone();
        let mut d = self.subset(v.len());
        let mut cd = self.subset(c.len());
        if self.rng.chance(5) {
            d.push(v.len());
        }
        if self.rng.chance(5) {
            cd.push(c.len());
        }
        let (blj, bl) = self.blind_of(sg.cm);
        let msgs = self.present_v(&v);
        let cms = self.present_v(&c);
        let didx = self.present_i(&d);
        let dcidx = self.present_i(&cd);
        let pk = self.keys[sg.key - 1].1.clone();
        let got = lib::blind_proof_gen(sg.s, &pk, &sg.bytes, &hdr, &ph, &msgs, &cms, &didx, &dcidx, &bl, Self::budget(v.len() + c.len() + 2));
        let args = json!({"sig": h + 1, "key": sg.key, "s": sg.s.name(), "hdr": self.abs_o(&hdr), "ph": self.abs_o(&ph), "msgs": self.abs_v(&msgs), "cms": self.abs_v(&cms),
            "didx": self.abs_i(&didx), "dcidx": self.abs_i(&dcidx), "bl": blj});
        let out = self.objs.len() + 1;
        let res = got.class();
        let mut obs = json!({});
        if let Out::Ok(bytes) = got {
            obs = json!({"len": bytes.len()});
            self.objs.push(DObj::Proof(DProof { tampered: false, bytes, s: sg.s, iface: Iface::Blind, key: sg.key, hdr: hdr.clone().unwrap_or_default(), ph: ph.clone().unwrap_or_default(), msgs: v, cms: c, d, cd }));
        }
        self.log("BlindProofGen", args, res, out, obs);
    }

    fn blind_proof_verify(&mut self) {
        let cands: Vec<usize> = self.proofs();
        let Some(h) = self.pick(&cands) else { return self.blind_proof_gen() };
        self.blind_proof_verify_of(h)
    }
    fn blind_proof_verify_of(&mut self, h: usize) {
        let DObj::Proof(p) = self.objs[h].clone() else { unreachable!() };
        let mut l = p.msgs.len();
        let mut ix = p.d.clone();
        let mut cx = p.cd.clone();
        if p.iface == Iface::Plain {
            cx.clear();
        }
        let mut dm: Vec<Vec<u8>> = ix.iter().filter(|&&i| i < p.msgs.len()).map(|&i| p.msgs[i].clone()).collect();
        ix.retain(|&i| i < p.msgs.len());
        let mut cm: Vec<Vec<u8>> = cx.iter().filter(|&&i| i < p.cms.len()).map(|&i| p.cms[i].clone()).collect();
        cx.retain(|&i| i < p.cms.len());
        let mut hdr = self.present(&p.hdr);
        let mut ph = self.present(&p.ph);
        let mut key = p.key;
        let mut s = p.s;
        if self.rng.chance(55) {
            match self.rng.below(11) {
                0 if !dm.is_empty() => {
                    let j = self.rng.below(dm.len());
                    dm[j] = self.fresh(40);
                }
                1 if !cm.is_empty() => {
                    let j = self.rng.below(cm.len());
                    cm[j] = self.fresh(40);
                }
                2 => l += 1,
                3 if l > 0 => l -= 1,
                4 if !cx.is_empty() => {
                    // a committed message presented as a signer message
                    let j = cx.remove(0);
                    let m = cm.remove(0);
                    ix.push(j + l + 1);
                    dm.push(m);
                }
                5 if !ix.is_empty() => {
                    let last = *ix.last().unwrap();
                    ix.push(last);
                    dm.push(self.content());
                }
                6 => hdr = Some(self.content()),
                7 => ph = Some(self.content()),
                8 => key = 1 + (key % self.keys.len()),
                9 => s = other(s),
                _ => {
                    if !ix.is_empty() {
                        ix.remove(0);
                        dm.remove(0);
                    }
                }
            }
        }
        let lopt: Option<usize> = if l == 0 && self.rng.chance(50) { None } else { Some(l) };
        let dmsgs = self.present_v(&dm);
        let dcmsgs = self.present_v(&cm);
        let didx = self.present_i(&ix);
        let dcidx = self.present_i(&cx);
        let pk = self.keys[key - 1].1.clone();
        let size = dm.len() + cm.len() + ix.len() + cx.len() + p.bytes.len() / 32 + 2;
        let got = lib::blind_proof_verify(s, &p.bytes, &pk, &hdr, &ph, lopt, &dmsgs, &dcmsgs, &didx, &dcidx, Self::budget(size));
        let args = json!({"proof": h + 1, "key": key, "s": s.name(), "hdr": self.abs_o(&hdr), "ph": self.abs_o(&ph), "L": lopt.map(|x| x as i64).unwrap_or(-1),
            "dmsgs": self.abs_v(&dmsgs), "dcmsgs": self.abs_v(&dcmsgs), "didx": self.abs_i(&didx), "dcidx": self.abs_i(&dcidx)});
        self.log("BlindProofVerify", args, got.class(), 0, json!({"detail": got.detail()}));
    }

    pub fn step(&mut self) {
        let r = self.rng.below(100);
        match self.family.as_str() {
            "sig" => match r {
                0..=24 => self.sign(),
                25..=59 => self.verify(),
                60..=65 => self.roundtrip(),
                66..=73 => self.tamper(),
                74..=97 => self.update(),
                _ => {
                    if self.keys.len() < 4 {
                        self.keygen()
                    }
                }
            },
            "proof" => match r {
                0..=14 => self.sign(),
                15..=19 => self.verify(),
                20..=24 => self.roundtrip(),
                25..=31 => self.tamper(),
                32..=36 => self.update(),
                37..=59 => self.proof_gen(),
                _ => self.proof_verify(),
            },
            "blind" => match r {
                0..=11 => self.commit(),
                12..=27 => self.blind_sign(),
                28..=45 => self.verify_blind(),
                46..=49 => self.roundtrip(),
                50..=56 => self.tamper(),
                57..=74 => self.blind_proof_gen(),
                75..=96 => self.blind_proof_verify(),
                _ => self.verify(),
            },
            _ => match r {
                0..=11 => self.sign(),
                12..=29 => self.verify(),
                30..=33 => self.roundtrip(),
                34..=38 => self.tamper(),
                39..=48 => self.update(),
                49..=57 => self.proof_gen(),
                58..=71 => self.proof_verify(),
                72..=75 => self.commit(),
                76..=80 => self.blind_sign(),
                81..=86 => self.verify_blind(),
                87..=92 => self.blind_proof_gen(),
                93..=98 => self.blind_proof_verify(),
                _ => {
                    if self.keys.len() < 4 {
                        self.keygen()
                    }
                }
            },
        }
    }

    pub fn run(&mut self, runs: usize, events_per_run: usize) {
        for _ in 0..runs {
            self.reset();
            let start = self.events.len();
            while self.events.len() - start < events_per_run {
                self.step();
            }
        }
    }
}

// ---------------------------------------------------------------------------------
// The repository's own fixtures as a trace: every vector becomes a sequence of API
// events (the fixture's artefacts are imported with the provenance the fixture states),
// executed against the library and validated by TLC with every invariant on.
// ---------------------------------------------------------------------------------
pub fn fixtures_trace(r: &Ref, repo: &str, seed: u64) -> (Vec<Value>, Vec<String>) {
    use std::fs;
    let hx = |v: &Value| hex::decode(v.as_str().unwrap_or("")).unwrap();
    let hxs = |v: &Value| -> Vec<Vec<u8>> { v.as_array().map(|a| a.iter().map(|x| hex::decode(x.as_str().unwrap()).unwrap()).collect()).unwrap_or_default() };
    let load = |p: String| -> Value { serde_json::from_str(&fs::read_to_string(&p).unwrap_or_else(|e| panic!("{p}: {e}"))).unwrap() };
    let mut d = Driver::new(r, seed, 100);
    let mut skipped: Vec<String> = vec![];
    for (suite, dir) in [(Suite::Sha, "bls12-381-sha-256"), (Suite::Shake, "bls12-381-shake-256")] {
        d.ids.clear();
        d.keys.clear();
        d.objs.clear();
        d.log("Reset", json!({"x": 0}), "Ok", 0, json!({}));
        let base = format!("{repo}/fixture_data/{dir}");
        let kp = load(format!("{base}/keypair.json"));
        let (sk, pk) = (hx(&kp["keyPair"]["secretKey"]), hx(&kp["keyPair"]["publicKey"]));
        d.keys.push((sk.clone(), pk.clone()));
        d.log("KeyGen", json!({"key": 1}), "Ok", 0, json!({}));
        let mut other_keys: Vec<Vec<u8>> = vec![];
        // key id for a public key appearing in a fixture
        let mut key_of = |d: &mut Driver, pkb: &[u8]| -> usize {
            if pkb == &pk[..] {
                return 1;
            }
            if let Some(i) = other_keys.iter().position(|k| k == pkb) {
                return i + 2;
            }
            other_keys.push(pkb.to_vec());
            d.keys.push((vec![0u8; 32], pkb.to_vec()));
            let id = d.keys.len();
            d.log("KeyGen", json!({"key": id}), "Ok", 0, json!({}));
            id
        };
        let opt = |b: Vec<u8>| -> OB { Some(b) };
        // ---- signatures: valid vectors are re-signed (octets must equal the fixture), then every vector is verified
        let mut sig_handles: Vec<(Vec<u8>, usize)> = vec![]; // (signature octets, handle)
        let mut files: Vec<_> = fs::read_dir(format!("{base}/signature")).unwrap().map(|e| e.unwrap().path()).collect();
        files.sort();
        let sigs: Vec<Value> = files.iter().map(|f| load(f.to_str().unwrap().to_string())).collect();
        let mut sign_it = |d: &mut Driver, hdr: &[u8], msgs: &[Vec<u8>], expect: &[u8]| -> Option<usize> {
            let h = opt(hdr.to_vec());
            let m = Some(msgs.to_vec());
            let got = lib::sign(suite, &sk, &pk, &h, &m, None);
            let args = json!({"key": 1, "s": suite.name(), "hdr": d.abs_o(&h), "msgs": d.abs_v(&m)});
            let out = d.objs.len() + 1;
            let res = got.class();
            let same = matches!(&got, Out::Ok(b) if &b[..] == expect);
            if let Out::Ok(bytes) = got {
                d.objs.push(DObj::Sig(DSig { tampered: false, bytes, s: suite, iface: Iface::Plain, key: 1, hdr: hdr.to_vec(), msgs: msgs.to_vec(), cm: 0, cms: vec![] }));
            }
            d.log("Sign", args, res, out, json!({"fixture": same}));
            if res == "Ok" { Some(out) } else { None }
        };
        for j in sigs.iter().filter(|j| j["result"]["valid"].as_bool().unwrap()) {
            let sb = hx(&j["signature"]);
            if sig_handles.iter().any(|(b, _)| *b == sb) {
                continue;
            }
            if let Some(h) = sign_it(&mut d, &hx(&j["header"]), &hxs(&j["messages"]), &sb) {
                sig_handles.push((sb, h));
            }
        }
        for (fi, j) in sigs.iter().enumerate() {
            let sb = hx(&j["signature"]);
            let Some((_, h)) = sig_handles.iter().find(|(b, _)| *b == sb) else {
                skipped.push(format!("{dir}/signature[{fi}]: signature not produced by a valid vector"));
                continue;
            };
            let key = key_of(&mut d, &hx(&j["signerKeyPair"]["publicKey"]));
            let hdr = opt(hx(&j["header"]));
            let msgs = Some(hxs(&j["messages"]));
            let got = lib::verify(suite, &sb, &d.keys[key - 1].1.clone(), &hdr, &msgs, None);
            let expect = if j["result"]["valid"].as_bool().unwrap() { "Ok" } else { "Err" };
            let args = json!({"sig": h, "key": key, "s": suite.name(), "hdr": d.abs_o(&hdr), "msgs": d.abs_v(&msgs)});
            d.log("Verify", args, got.class(), 0, json!({"fixture": got.class() == expect}));
        }
        // ---- proofs: the valid vectors' proofs are imported with the provenance the vector states
        let mut files: Vec<_> = fs::read_dir(format!("{base}/proof")).unwrap().map(|e| e.unwrap().path()).collect();
        files.sort();
        let proofs: Vec<Value> = files.iter().map(|f| load(f.to_str().unwrap().to_string())).collect();
        let mut proof_handles: Vec<(Vec<u8>, usize)> = vec![];
        for j in proofs.iter().filter(|j| j["result"]["valid"].as_bool().unwrap()) {
            let pb = hx(&j["proof"]);
            if proof_handles.iter().any(|(b, _)| *b == pb) {
                continue;
            }
            let sb = hx(&j["signature"]);
            let (hdr, msgs) = (hx(&j["header"]), hxs(&j["messages"]));
            let sh = match sig_handles.iter().find(|(b, _)| *b == sb) {
                Some((_, h)) => *h,
                None => match sign_it(&mut d, &hdr, &msgs, &sb) {
                    Some(h) => {
                        sig_handles.push((sb.clone(), h));
                        h
                    }
                    None => continue,
                },
            };
            let didx: Vec<usize> = j["disclosedIndexes"].as_array().unwrap().iter().map(|x| x.as_u64().unwrap() as usize).collect();
            let (oh, oph, om, oi) = (opt(hdr.clone()), opt(hx(&j["presentationHeader"])), Some(msgs.clone()), Some(didx.clone()));
            let args = json!({"sig": sh, "key": 1, "s": suite.name(), "hdr": d.abs_o(&oh), "ph": d.abs_o(&oph), "msgs": d.abs_v(&om), "didx": d.abs_i(&oi)});
            let out = d.objs.len() + 1;
            d.objs.push(DObj::Proof(DProof { tampered: false, bytes: pb.clone(), s: suite, iface: Iface::Plain, key: 1, hdr, ph: hx(&j["presentationHeader"]), msgs, cms: vec![], d: didx, cd: vec![] }));
            d.log("ProofGen", args, "Ok", out, json!({"len": pb.len(), "imported_from_fixture": true}));
            proof_handles.push((pb, out));
        }
        for (fi, j) in proofs.iter().enumerate() {
            let pb = hx(&j["proof"]);
            let h = match proof_handles.iter().find(|(b, _)| *b == pb) {
                Some((_, h)) => *h,
                None => {
                    // a vector whose proof is a known proof with whole scalars removed is a tampered artefact
                    let hit = proof_handles.iter().find(|(b, _)| b.len() == pb.len() + 32 && b[..pb.len() - 32] == pb[..pb.len() - 32]).map(|x| x.1);
                    match hit {
                        None => {
                            skipped.push(format!("{dir}/proof[{fi}]: proof octets not derivable from a valid vector"));
                            continue;
                        }
                        Some(_) => {
                            skipped.push(format!("{dir}/proof[{fi}]: truncated proof with re-appended challenge (not a whole-scalar truncation)"));
                            continue;
                        }
                    }
                }
            };
            let key = key_of(&mut d, &hx(&j["signerPublicKey"]));
            let msgs = hxs(&j["messages"]);
            let didx: Vec<usize> = j["disclosedIndexes"].as_array().unwrap().iter().map(|x| x.as_u64().unwrap() as usize).collect();
            if didx.iter().any(|&i| i >= msgs.len()) {
                skipped.push(format!("{dir}/proof[{fi}]: disclosed index beyond the listed messages"));
                continue;
            }
            let dm: Vec<Vec<u8>> = didx.iter().map(|&i| msgs[i].clone()).collect();
            let (oh, oph, om, oi) = (opt(hx(&j["header"])), opt(hx(&j["presentationHeader"])), Some(dm), Some(didx));
            let got = lib::proof_verify(suite, &pb, &d.keys[key - 1].1.clone(), &oh, &oph, &om, &oi, None);
            let expect = if j["result"]["valid"].as_bool().unwrap() { "Ok" } else { "Err" };
            let args = json!({"proof": h, "key": key, "s": suite.name(), "hdr": d.abs_o(&oh), "ph": d.abs_o(&oph), "dmsgs": d.abs_v(&om), "didx": d.abs_i(&oi)});
            d.log("ProofVerify", args, got.class(), 0, json!({"fixture": got.class() == expect}));
        }
        // ---- blind vectors: commitments are imported with the provenance the vector states, blind signatures are
        // re-issued by the library (octets must equal the vector), proofs are imported and verified
        let bbase = format!("{repo}/fixture_data_blind/{dir}");
        let all = load(format!("{repo}/fixture_data_blind/messages.json"));
        let (all_msgs, all_cms) = (hxs(&all["messages"]), hxs(&all["committedMessages"]));
        let mut commit_handles: Vec<(Vec<u8>, usize)> = vec![];
        let mut bsig_handles: Vec<(Vec<u8>, usize)> = vec![];
        let mut files: Vec<_> = fs::read_dir(format!("{bbase}/signature")).unwrap().map(|e| e.unwrap().path()).collect();
        files.sort();
        for f in &files {
            let j = load(f.to_str().unwrap().to_string());
            let (hdr, msgs, cms) = (hx(&j["header"]), hxs(&j["messages"]), hxs(&j["committedMessages"]));
            let cm = match j["commitmentWithProof"].as_str() {
                None => 0,
                Some(cb) => {
                    let cb = hex::decode(cb).unwrap();
                    match commit_handles.iter().find(|(b, _)| *b == cb) {
                        Some((_, h)) => *h,
                        None => {
                            let oc = Some(cms.clone());
                            let out = d.objs.len() + 1;
                            d.objs.push(DObj::Commit(DCommit { tampered: false, bytes: cb.clone(), blind: hx(&j["proverBlind"]), s: suite, cms: cms.clone() }));
                            let a = json!({"s": suite.name(), "cms": d.abs_v(&oc)});
                            d.log("Commit", a, "Ok", out, json!({"len": cb.len(), "imported_from_fixture": true}));
                            commit_handles.push((cb, out));
                            out
                        }
                    }
                }
            };
            let cbytes: OB = if cm == 0 { None } else { match &d.objs[cm - 1] { DObj::Commit(c) => Some(c.bytes.clone()), _ => unreachable!() } };
            let (oh, om) = (opt(hdr.clone()), Some(msgs.clone()));
            let got = lib::blind_sign(suite, &sk, &pk, &cbytes, &oh, &om, None);
            let expect = hx(&j["signature"]);
            let same = matches!(&got, Out::Ok(b) if b[..] == expect[..]);
            let args = json!({"key": 1, "s": suite.name(), "cm": cm, "hdr": d.abs_o(&oh), "msgs": d.abs_v(&om)});
            let out = d.objs.len() + 1;
            let res = got.class();
            if let Out::Ok(bytes) = got {
                d.objs.push(DObj::Sig(DSig { tampered: false, bytes: bytes.clone(), s: suite, iface: Iface::Blind, key: 1, hdr: hdr.clone(), msgs: msgs.clone(), cm, cms: if cm == 0 { vec![] } else { cms.clone() } }));
                bsig_handles.push((bytes, out));
            }
            d.log("BlindSign", args, res, out, json!({"fixture": same}));
            if res != "Ok" {
                continue;
            }
            let (blj, bl) = d.blind_of(cm);
            let (om2, oc2) = (Some(msgs.clone()), Some(if cm == 0 { vec![] } else { cms.clone() }));
            let gotv = lib::verify_blind(suite, &expect, &pk, &oh, &om2, &oc2, &bl, None);
            let expv = if j["result"]["valid"].as_bool().unwrap() { "Ok" } else { "Err" };
            let args = json!({"sig": out, "key": 1, "s": suite.name(), "hdr": d.abs_o(&oh), "msgs": d.abs_v(&om2), "cms": d.abs_v(&oc2), "bl": blj});
            d.log("VerifyBlind", args, gotv.class(), 0, json!({"fixture": gotv.class() == expv}));
        }
        let mut files: Vec<_> = fs::read_dir(format!("{bbase}/proof")).unwrap().map(|e| e.unwrap().path()).collect();
        files.sort();
        for (fi, f) in files.iter().enumerate() {
            let j = load(f.to_str().unwrap().to_string());
            let sb = hx(&j["signature"]);
            let Some((_, sh)) = bsig_handles.iter().find(|(b, _)| *b == sb).cloned() else {
                skipped.push(format!("{dir}/blind proof[{fi}]: signature not issued by a signature vector"));
                continue;
            };
            let DObj::Sig(sg) = d.objs[sh - 1].clone() else { unreachable!() };
            let idx_map = |v: &Value| -> (Vec<usize>, Vec<Vec<u8>>) {
                let mut pairs: Vec<(usize, Vec<u8>)> = v.as_object().map(|o| o.iter().map(|(k, h)| (k.parse().unwrap(), hex::decode(h.as_str().unwrap()).unwrap())).collect()).unwrap_or_default();
                pairs.sort();
                (pairs.iter().map(|p| p.0).collect(), pairs.into_iter().map(|p| p.1).collect())
            };
            let (didx, dmsgs) = idx_map(&j["revealedMessages"]);
            let (dcidx, dcmsgs) = idx_map(&j["revealedCommittedMessages"]);
            if sg.msgs != all_msgs || (sg.cm != 0 && sg.cms != all_cms) {
                skipped.push(format!("{dir}/blind proof[{fi}]: signed vectors differ from messages.json"));
                continue;
            }
            let (hdr, ph) = (hx(&j["header"]), hx(&j["presentationHeader"]));
            let pb = hx(&j["proof"]);
            let (blj, _bl) = d.blind_of(sg.cm);
            let (oh, oph, om, oc, oi, oci) = (opt(hdr.clone()), opt(ph.clone()), Some(sg.msgs.clone()), Some(sg.cms.clone()), Some(didx.clone()), Some(dcidx.clone()));
            let args = json!({"sig": sh, "key": 1, "s": suite.name(), "hdr": d.abs_o(&oh), "ph": d.abs_o(&oph), "msgs": d.abs_v(&om), "cms": d.abs_v(&oc),
                "didx": d.abs_i(&oi), "dcidx": d.abs_i(&oci), "bl": blj});
            let out = d.objs.len() + 1;
            d.objs.push(DObj::Proof(DProof { tampered: false, bytes: pb.clone(), s: suite, iface: Iface::Blind, key: 1, hdr, ph, msgs: sg.msgs.clone(), cms: sg.cms.clone(), d: didx.clone(), cd: dcidx.clone() }));
            d.log("BlindProofGen", args, "Ok", out, json!({"len": pb.len(), "imported_from_fixture": true}));
            let l = j["L"].as_u64().unwrap() as usize;
            let (odm, odcm) = (Some(dmsgs), Some(dcmsgs));
            let got = lib::blind_proof_verify(suite, &pb, &pk, &oh, &oph, Some(l), &odm, &odcm, &oi, &oci, None);
            let expv = if j["result"]["valid"].as_bool().unwrap() { "Ok" } else { "Err" };
            let args = json!({"proof": out, "key": 1, "s": suite.name(), "hdr": d.abs_o(&oh), "ph": d.abs_o(&oph), "L": l,
                "dmsgs": d.abs_v(&odm), "dcmsgs": d.abs_v(&odcm), "didx": d.abs_i(&oi), "dcidx": d.abs_i(&oci)});
            d.log("BlindProofVerify", args, got.class(), 0, json!({"fixture": got.class() == expv}));
        }
    }
    (d.events, skipped)
}
