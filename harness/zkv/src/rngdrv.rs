//! Driver `rng` (property C07): randomised artefacts are generated from identical
//! and from different inputs on 1..16 threads; every production draw is logged
//! through the rng_draw hook; the blinding scalars are recomputed by a party who
//! knows the witness; encodings are scanned for hidden values.  The log is
//! validated by TLC against Trace_Rng.tla.

use crate::libapi::{self as lib, Out};
use crate::refimpl::*;
use crate::replay::prg;
use bls12_381_plus::Scalar;
use serde_json::{json, Value};
use sha2::{Digest, Sha256};
use std::sync::Mutex;
use zkryptium::verif_hooks;

fn dig(b: &[u8]) -> String {
    hex::encode(&Sha256::digest(b)[..12])
}
fn bits(s: &Scalar) -> u32 {
    let b = sc_bytes(s);
    for (i, x) in b.iter().enumerate() {
        if *x != 0 {
            return (32 - i as u32) * 8 - x.leading_zeros();
        }
    }
    0
}

fn scan(bytes: &[u8], scalars: &[[u8; 32]], points: &[[u8; 48]]) -> usize {
    let mut hits = 0;
    if bytes.len() >= 32 {
        for off in 0..=bytes.len() - 32 {
            if scalars.iter().any(|s| &bytes[off..off + 32] == s) {
                hits += 1;
            }
        }
    }
    if bytes.len() >= 48 {
        for off in 0..=bytes.len() - 48 {
            if points.iter().any(|p| &bytes[off..off + 48] == p) {
                hits += 1;
            }
        }
    }
    hits
}

pub fn run(r: &Ref, proc_id: u64, threads: usize, iters: usize, seed: u64) -> Vec<Value> {
    let out = Mutex::new(Vec::<Value>::new());
    // shared inputs (identical for every thread and every process started with the same seed)
    let s = Suite::Sha;
    let ikm = prg(seed, "rng-ikm", 0, 0, 48);
    let (sk, pk) = lib::keygen(s, &ikm, None, None).ok().expect("keygen");
    let skc = scalar_from_be(&sk).unwrap();
    let pkp = g2_from(&pk).unwrap();
    let api = r.api_id(s, Iface::Plain);
    let bapi = r.api_id(s, Iface::Blind);
    std::thread::scope(|sc| {
        for t in 0..threads {
            let out = &out;
            let (sk, pk) = (sk.clone(), pk.clone());
            let (api, bapi) = (api.clone(), bapi.clone());
            sc.spawn(move || {
                let mut evs: Vec<Value> = vec![];
                let thr = t as u64;
                verif_hooks::start_recording();
                for i in 0..iters {
                    let id = format!("p{proc_id}t{t}i{i}");
                    // identical inputs on even iterations, thread-specific ones on odd iterations
                    let salt = if i % 2 == 0 { 0 } else { 1000 * (t as u64 + 1) + i as u64 };
                    // (260 hidden messages: more blinding slots than a one-byte counter or a 256-entry table can index)
                    let sizes = [0usize, 260, 1, 2, 3, 5, 12, 17, 20];
                    let n = sizes[(i / 4) % sizes.len()];
                    let msgs: Vec<Vec<u8>> = (0..n + 1).map(|j| prg(seed, "rng-msg", salt, j as u64, 8 + j)).collect();
                    let hdr = Some(prg(seed, "rng-hdr", salt, 0, 5));
                    let mut made: Option<Value> = None;
                    let mut scan_ev: Option<Value> = None;
                    match i % 4 {
                        0 => {
                            // plain proof: disclose message 0 only -> U = n
                            let sig = lib::sign(s, &sk, &pk, &hdr, &Some(msgs.clone()), None).ok().unwrap();
                            let rsig = r.sig_decode(&sig).unwrap();
                            let _ = verif_hooks::take_draws();
                            if let Out::Ok(pb) = lib::proof_gen(s, &pk, &sig, &hdr, &None, &Some(msgs.clone()), &Some(vec![0]), None) {
                                let Ok(p) = r.proof_decode(&pb) else {
                                    evs.push(json!({"op": "Made", "kind": "proof", "id": id, "blind": [], "pts": [], "secrets": [], "minbits": 0, "zero": true, "note": "the reference decoder refuses the artefact (degenerate value)"}));
                                    continue;
                                };
                                let ms: Vec<Scalar> = msgs[1..].iter().map(|m| r.msg_scalar(s, &api, m)).collect();
                                let mut bl = vec![p.e_cap - rsig.e * p.challenge];
                                for (j, m) in ms.iter().enumerate() {
                                    bl.push(p.m_cap[j] - m * p.challenge);
                                }
                                let mut pts = vec![dig(&pt_bytes(&p.abar)), dig(&pt_bytes(&p.bbar)), dig(&pt_bytes(&p.d)), dig(&sc_bytes(&p.e_cap)), dig(&sc_bytes(&p.r1_cap)), dig(&sc_bytes(&p.r3_cap))];
                                pts.extend(p.m_cap.iter().map(|x| dig(&sc_bytes(x))));
                                made = Some(json!({"op": "Made", "kind": "proof", "id": id, "blind": bl.iter().map(|x| dig(&sc_bytes(x))).collect::<Vec<_>>(),
                                    "pts": pts, "secrets": [], "minbits": bl.iter().map(bits).min().unwrap_or(255), "zero": bl.iter().any(|x| *x == Scalar::ZERO)}));
                                let mut hidden: Vec<[u8; 32]> = ms.iter().map(sc_bytes).collect();
                                hidden.push(sc_bytes(&rsig.e));
                                hidden.push(sc_bytes(&skc));
                                scan_ev = Some(json!({"op": "Scan", "id": id, "hits": scan(&pb, &hidden, &[pt_bytes(&rsig.a)])}));
                            }
                        }
                        1 => {
                            // commitment to n messages
                            let cm = msgs[..n].to_vec();
                            let _ = verif_hooks::take_draws();
                            if let Out::Ok((cb, blind)) = lib::commit(s, &Some(cm.clone()), None) {
                                let Ok(c) = r.commit_decode(&cb) else {
                                    evs.push(json!({"op": "Made", "kind": "commit", "id": id, "blind": [], "pts": [], "secrets": [], "minbits": 0, "zero": true, "note": "the reference decoder refuses the artefact (degenerate value)"}));
                                    continue;
                                };
                                let b = scalar_from_be(&blind).unwrap();
                                let ms: Vec<Scalar> = cm.iter().map(|m| r.msg_scalar(s, &bapi, m)).collect();
                                let mut bl = vec![b, c.s_cap - b * c.challenge];
                                for (j, m) in ms.iter().enumerate() {
                                    bl.push(c.m_cap[j] - m * c.challenge);
                                }
                                let mut pts = vec![dig(&pt_bytes(&c.c)), dig(&sc_bytes(&c.s_cap))];
                                pts.extend(c.m_cap.iter().map(|x| dig(&sc_bytes(x))));
                                made = Some(json!({"op": "Made", "kind": "commit", "id": id, "blind": bl.iter().map(|x| dig(&sc_bytes(x))).collect::<Vec<_>>(),
                                    "pts": pts, "secrets": [], "minbits": bl.iter().map(bits).min().unwrap_or(255), "zero": bl.iter().any(|x| *x == Scalar::ZERO)}));
                                let mut hidden: Vec<[u8; 32]> = ms.iter().map(sc_bytes).collect();
                                hidden.push(sc_bytes(&b));
                                scan_ev = Some(json!({"op": "Scan", "id": id, "hits": scan(&cb, &hidden, &[])}));
                            }
                        }
                        2 => {
                            // blind proof over a blind signature with a commitment: everything hidden
                            let cm = msgs[..n.min(6)].to_vec();
                            // (a library that refuses its own commitment here is another property's business: the
                            // iteration then only contributes its draws)
                            let made_sig = match lib::commit(s, &Some(cm.clone()), None) {
                                Out::Ok((cb, blind)) => match lib::blind_sign(s, &sk, &pk, &Some(cb), &hdr, &Some(msgs[..1].to_vec()), None) {
                                    Out::Ok(sig) => r.sig_decode(&sig).ok().map(|rs| (sig, rs, blind)),
                                    _ => None,
                                },
                                _ => None,
                            };
                            let Some((sig, rsig, blind)) = made_sig else {
                                for d in verif_hooks::take_draws() {
                                    evs.push(json!({"op": "Draw", "proc": proc_id, "thr": thr, "seq": d.seq, "site": d.site, "dig": dig(&d.value)}));
                                }
                                continue;
                            };
                            let _ = verif_hooks::take_draws();
                            if let Out::Ok(pb) = lib::blind_proof_gen(s, &pk, &sig, &hdr, &None, &Some(msgs[..1].to_vec()), &Some(cm.clone()), &None, &None, &Some(blind.clone()), None) {
                                let Ok(p) = r.proof_decode(&pb) else {
                                    evs.push(json!({"op": "Made", "kind": "blindproof", "id": id, "blind": [], "pts": [], "secrets": [], "minbits": 0, "zero": true, "note": "the reference decoder refuses the artefact (degenerate value)"}));
                                    continue;
                                };
                                let mut ms: Vec<Scalar> = vec![r.msg_scalar(s, &bapi, &msgs[0]), scalar_from_be(&blind).unwrap()];
                                ms.extend(cm.iter().map(|m| r.msg_scalar(s, &bapi, m)));
                                let mut bl = vec![p.e_cap - rsig.e * p.challenge];
                                for (j, m) in ms.iter().enumerate() {
                                    bl.push(p.m_cap[j] - m * p.challenge);
                                }
                                let mut pts = vec![dig(&pt_bytes(&p.abar)), dig(&pt_bytes(&p.bbar)), dig(&pt_bytes(&p.d)), dig(&sc_bytes(&p.e_cap))];
                                pts.extend(p.m_cap.iter().map(|x| dig(&sc_bytes(x))));
                                made = Some(json!({"op": "Made", "kind": "blindproof", "id": id, "blind": bl.iter().map(|x| dig(&sc_bytes(x))).collect::<Vec<_>>(),
                                    "pts": pts, "secrets": [], "minbits": bl.iter().map(bits).min().unwrap_or(255), "zero": bl.iter().any(|x| *x == Scalar::ZERO)}));
                                let mut hidden: Vec<[u8; 32]> = ms.iter().map(sc_bytes).collect();
                                hidden.push(sc_bytes(&rsig.e));
                                scan_ev = Some(json!({"op": "Scan", "id": id, "hits": scan(&pb, &hidden, &[pt_bytes(&rsig.a)])}));
                            }
                        }
                        _ => {
                            let _ = verif_hooks::take_draws();
                            let mut secrets = vec![];
                            let mut pts = vec![];
                            let mut mb = 255u32;
                            // two key pairs one after the other (nothing else drawn in between), then a blind factor
                            for _ in 0..2 {
                                if let Out::Ok((ksk, kpk)) = lib::key_random(if i % 8 == 3 { Suite::Sha } else { Suite::Shake }) {
                                    secrets.push(dig(&ksk));
                                    pts.push(dig(&kpk));
                                    mb = mb.min(bits(&scalar_from_be(&ksk).unwrap()));
                                }
                            }
                            if let Out::Ok(bf) = lib::guard_plain(None, || zkryptium::bbsplus::commitment::BlindFactor::random().to_bytes().to_vec()) {
                                secrets.push(dig(&bf));
                                mb = mb.min(bits(&scalar_from_be(&bf).unwrap()));
                            }
                            made = Some(json!({"op": "Made", "kind": "key", "id": id, "blind": [], "pts": pts, "secrets": secrets, "minbits": mb, "zero": false}));
                        }
                    }
                    let drawn = verif_hooks::take_draws();
                    // (drift) the consumption map of Rng.tla: which draw feeds which blinding slot
                    if let Some(m) = &made {
                        let kind = m["kind"].as_str().unwrap_or("");
                        let bl: Vec<String> = m["blind"].as_array().unwrap().iter().map(|x| x.as_str().unwrap().to_string()).collect();
                        let dd: Vec<String> = drawn.iter().filter(|d| d.site == "get_random").map(|d| dig(&d.value)).collect();
                        let expect: Option<Vec<String>> = match kind {
                            // draws: r1, r2, e~, r1~, r3~, m~_1.. ; recomputed: e~, m~_1..
                            "proof" | "blindproof" if dd.len() == 4 + bl.len() => Some(std::iter::once(dd[2].clone()).chain(dd[5..].iter().cloned()).collect()),
                            // draws: secret_prover_blind, s~, m~_1.. ; recomputed: the same
                            "commit" if dd.len() == bl.len() => Some(dd.clone()),
                            "key" => None,
                            _ => Some(vec![]),
                        };
                        if let Some(e) = expect {
                            evs.push(json!({"op": "Slots", "id": m["id"], "kind": kind, "draws": dd.len(), "match": e == bl}));
                        }
                    }
                    for d in drawn {
                        evs.push(json!({"op": "Draw", "proc": proc_id, "thr": thr, "seq": d.seq, "site": d.site, "dig": dig(&d.value)}));
                    }
                    if let Some(m) = made {
                        evs.push(m);
                    }
                    if let Some(sv) = scan_ev {
                        evs.push(sv);
                    }
                }
                verif_hooks::stop_recording();
                out.lock().unwrap().extend(evs);
            });
        }
    });
    // burst: all threads draw blind factors and commitments at the same moment, in a tight loop (whatever the
    // randomness source shares between threads is exercised under contention)
    if threads >= 2 {
        let barrier = std::sync::Barrier::new(threads);
        std::thread::scope(|sc| {
            for t in 0..threads {
                let out = &out;
                let barrier = &barrier;
                sc.spawn(move || {
                    barrier.wait();
                    let mut secrets = vec![];
                    let (mut zero, mut mb) = (false, 255u32);
                    for k in 0..400 {
                        let bf = if k % 8 == 7 {
                            lib::commit(s, &None, None).ok().map(|x| x.1)
                        } else {
                            lib::guard_plain(None, || zkryptium::bbsplus::commitment::BlindFactor::random().to_bytes().to_vec()).ok()
                        };
                        if let Some(b) = bf {
                            let sc = scalar_from_be(&b).unwrap();
                            zero |= sc == Scalar::ZERO;
                            mb = mb.min(bits(&sc));
                            secrets.push(dig(&b));
                        }
                    }
                    let ev = json!({"op": "Made", "kind": "burst", "id": format!("p{proc_id}t{t}burst"), "blind": [], "pts": [], "secrets": secrets, "minbits": mb, "zero": zero});
                    out.lock().unwrap().push(ev);
                });
            }
        });
    }
    let _ = pkp;
    out.into_inner().unwrap()
}
