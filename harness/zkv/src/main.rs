mod fixtures;
mod refimpl;

use refimpl::Ref;

fn usage() -> ! {
    eprintln!("usage: zkv <fixtures|replay|record|...> [args]");
    std::process::exit(2)
}

fn main() {
    let args: Vec<String> = std::env::args().collect();
    if args.len() < 2 {
        usage();
    }
    let layouts = std::env::var("ZKV_LAYOUTS").unwrap_or_else(|_| "/verif/build/layouts.json".into());
    let repo = std::env::var("ZKV_REPO").unwrap_or_else(|_| "/repo".into());
    match args[1].as_str() {
        "fixtures" => {
            let r = Ref::load(&layouts);
            let t = fixtures::run(&r, &repo);
            println!("{{\"checked\":{},\"failed\":{}}}", t.checked, t.failed.len());
            for f in &t.failed {
                println!("FIXTURE-MISMATCH {f}");
            }
            std::process::exit(if t.failed.is_empty() { 0 } else { 2 });
        }
        _ => usage(),
    }
}
