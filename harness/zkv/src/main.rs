mod craft;
mod fixtures;
mod libapi;
mod refimpl;
mod replay;

use refimpl::Ref;

fn usage() -> ! {
    eprintln!("usage: zkv <fixtures|replay|record|...> [args]");
    std::process::exit(2)
}

fn main() {
    let args: Vec<String> = std::env::args().collect();
    if args.len() < 2 {
        usage();
    }
    let layouts = std::env::var("ZKV_LAYOUTS").unwrap_or_else(|_| "/verif/build/layouts.json".into());
    let repo = std::env::var("ZKV_REPO").unwrap_or_else(|_| "/repo".into());
    match args[1].as_str() {
        "fixtures" => {
            let r = Ref::load(&layouts);
            let t = fixtures::run(&r, &repo);
            println!("{{\"checked\":{},\"failed\":{}}}", t.checked, t.failed.len());
            for f in &t.failed {
                println!("FIXTURE-MISMATCH {f}");
            }
            std::process::exit(if t.failed.is_empty() { 0 } else { 2 });
        }
        "replay" => {
            // zkv replay <cases.ndjson> <report.json> [--flip-stride N] [--threads N] [--chunks a,b,c]
            let r = Ref::load(&layouts);
            libapi::install_quiet_panic_hook();
            let text = std::fs::read_to_string(&args[2]).expect("cases file");
            let cases: Vec<serde_json::Value> = text.lines().filter(|l| !l.trim().is_empty()).map(|l| serde_json::from_str(l).expect("case line")).collect();
            let seed: u64 = std::env::var("VERIF_SEED").ok().and_then(|s| s.parse().ok()).unwrap_or(1);
            let mut flip_stride = 0usize;
            let mut threads = 8usize;
            let mut chunks: Vec<usize> = vec![1, 32, 255, 256];
            let mut i = 4;
            while i < args.len() {
                match args[i].as_str() {
                    "--flip-stride" => { flip_stride = args[i + 1].parse().unwrap(); i += 2; }
                    "--threads" => { threads = args[i + 1].parse().unwrap(); i += 2; }
                    "--chunks" => { chunks = args[i + 1].split(',').map(|x| x.parse().unwrap()).collect(); i += 2; }
                    _ => usage(),
                }
            }
            let cfg = replay::Cfg { insts: chunks.iter().map(|&c| replay::Inst { seed, chunk: c }).collect(), flip_stride, budget_slack: 0 };
            let rep = replay::run_cases(&r, &cases, &cfg, threads);
            let out = serde_json::json!({
                "cases": rep.cases, "concrete_runs": rep.concrete_runs, "steps": rep.steps, "flips": rep.flips,
                "checks": rep.checks, "mismatches": rep.mismatches, "drift": rep.drift, "samples": rep.samples,
            });
            std::fs::write(&args[3], serde_json::to_string_pretty(&out).unwrap()).unwrap();
            println!("replayed cases={} runs={} steps={} flips={} mismatches={} drift={}", rep.cases, rep.concrete_runs, rep.steps, rep.flips, rep.mismatches.len(), rep.drift.len());
            std::process::exit(0);
        }
        _ => usage(),
    }
}
