mod craft;
mod fixtures;
mod libapi;
mod record;
mod refimpl;
mod replay;
mod replay_codec;
mod replay_det;
mod rngdrv;

use refimpl::Ref;

fn usage() -> ! {
    eprintln!("usage: zkv <fixtures|replay|record|...> [args]");
    std::process::exit(2)
}

fn main() {
    let args: Vec<String> = std::env::args().collect();
    if args.len() < 2 {
        usage();
    }
    let layouts = std::env::var("ZKV_LAYOUTS").unwrap_or_else(|_| "/verif/build/layouts.json".into());
    let repo = std::env::var("ZKV_REPO").unwrap_or_else(|_| "/repo".into());
    match args[1].as_str() {
        "fixtures" => {
            let r = Ref::load(&layouts);
            let t = fixtures::run(&r, &repo);
            println!("{{\"checked\":{},\"failed\":{}}}", t.checked, t.failed.len());
            for f in &t.failed {
                println!("FIXTURE-MISMATCH {f}");
            }
            std::process::exit(if t.failed.is_empty() { 0 } else { 2 });
        }
        "replay" => {
            // zkv replay <cases.ndjson> <report.json> [--flip-stride N] [--threads N] [--chunks a,b,c]
            let r = Ref::load(&layouts);
            libapi::install_quiet_panic_hook();
            let text = std::fs::read_to_string(&args[2]).expect("cases file");
            let cases: Vec<serde_json::Value> = text.lines().filter(|l| !l.trim().is_empty()).map(|l| serde_json::from_str(l).expect("case line")).collect();
            let seed: u64 = std::env::var("VERIF_SEED").ok().and_then(|s| s.parse().ok()).unwrap_or(1);
            let mut flip_stride = 0usize;
            let mut threads = 8usize;
            let mut chunks: Vec<usize> = vec![1, 32, 255, 256];
            let mut i = 4;
            while i < args.len() {
                match args[i].as_str() {
                    "--flip-stride" => { flip_stride = args[i + 1].parse().unwrap(); i += 2; }
                    "--threads" => { threads = args[i + 1].parse().unwrap(); i += 2; }
                    "--chunks" => { chunks = args[i + 1].split(',').map(|x| x.parse().unwrap()).collect(); i += 2; }
                    _ => usage(),
                }
            }
            let cfg = replay::Cfg { insts: chunks.iter().map(|&c| replay::Inst { seed, chunk: c }).collect(), flip_stride, budget_slack: 0 };
            let rep = replay::run_cases(&r, &cases, &cfg, threads);
            let out = serde_json::json!({
                "cases": rep.cases, "concrete_runs": rep.concrete_runs, "steps": rep.steps, "flips": rep.flips,
                "checks": rep.checks, "mismatches": rep.mismatches, "drift": rep.drift, "samples": rep.samples,
            });
            std::fs::write(&args[3], serde_json::to_string_pretty(&out).unwrap()).unwrap();
            println!("replayed cases={} runs={} steps={} flips={} mismatches={} drift={}", rep.cases, rep.concrete_runs, rep.steps, rep.flips, rep.mismatches.len(), rep.drift.len());
            std::process::exit(0);
        }
        "replay-codec" => {
            // zkv replay-codec <cases.ndjson> <report.json> [--flip-stride N]
            let r = Ref::load(&layouts);
            libapi::install_quiet_panic_hook();
            let text = std::fs::read_to_string(&args[2]).expect("cases file");
            let cases: Vec<serde_json::Value> = text.lines().filter(|l| !l.trim().is_empty()).map(|l| serde_json::from_str(l).expect("case line")).collect();
            let seed: u64 = std::env::var("VERIF_SEED").ok().and_then(|s| s.parse().ok()).unwrap_or(1);
            let mut flip_stride = 0usize;
            let mut i = 4;
            while i < args.len() {
                match args[i].as_str() {
                    "--flip-stride" => { flip_stride = args[i + 1].parse().unwrap(); i += 2; }
                    _ => usage(),
                }
            }
            let mut rep = replay_codec::run(&r, &cases, seed, flip_stride);
            replay_codec::roundtrips(seed, &mut rep);
            let out = serde_json::json!({"cases": rep.cases, "checks": rep.checks, "mismatches": rep.mismatches, "samples": rep.samples, "skipped": rep.skipped, "drift": rep.drift});
            std::fs::write(&args[3], serde_json::to_string_pretty(&out).unwrap()).unwrap();
            println!("replayed codec cases={} mismatches={}", rep.cases, rep.mismatches.len());
            std::process::exit(0);
        }
        "replay-det" => {
            // zkv replay-det <cases.ndjson> <report.json> [--threads N]
            let r = Ref::load(&layouts);
            libapi::install_quiet_panic_hook();
            let text = std::fs::read_to_string(&args[2]).expect("cases file");
            let cases: Vec<serde_json::Value> = text.lines().filter(|l| !l.trim().is_empty()).map(|l| serde_json::from_str(l).expect("case line")).collect();
            let seed: u64 = std::env::var("VERIF_SEED").ok().and_then(|s| s.parse().ok()).unwrap_or(1);
            let mut threads = 16usize;
            let mut i = 4;
            while i < args.len() {
                match args[i].as_str() {
                    "--threads" => { threads = args[i + 1].parse().unwrap(); i += 2; }
                    _ => usage(),
                }
            }
            let rep = replay_det::run(&r, &cases, seed, threads);
            let out = serde_json::json!({"cases": rep.cases, "checks": rep.checks, "mismatches": rep.mismatches, "samples": rep.samples});
            std::fs::write(&args[3], serde_json::to_string_pretty(&out).unwrap()).unwrap();
            println!("replayed det cases={} mismatches={}", rep.cases, rep.mismatches.len());
            std::process::exit(0);
        }
        "rng" => {
            // zkv rng <trace.ndjson> --proc P --threads T --iters N
            let r = Ref::load(&layouts);
            libapi::install_quiet_panic_hook();
            let seed: u64 = std::env::var("VERIF_SEED").ok().and_then(|s| s.parse().ok()).unwrap_or(1);
            let (mut proc_id, mut threads, mut iters) = (0u64, 1usize, 16usize);
            let mut i = 3;
            while i < args.len() {
                match args[i].as_str() {
                    "--proc" => { proc_id = args[i + 1].parse().unwrap(); i += 2; }
                    "--threads" => { threads = args[i + 1].parse().unwrap(); i += 2; }
                    "--iters" => { iters = args[i + 1].parse().unwrap(); i += 2; }
                    _ => usage(),
                }
            }
            let evs = rngdrv::run(&r, proc_id, threads, iters, seed);
            let mut out = String::new();
            for e in &evs {
                out.push_str(&serde_json::to_string(e).unwrap());
                out.push('\n');
            }
            std::fs::write(&args[2], out).unwrap();
            println!("recorded rng events={}", evs.len());
            std::process::exit(0);
        }
        "fixtures-trace" => {
            // zkv fixtures-trace <trace.ndjson>
            let r = Ref::load(&layouts);
            libapi::install_quiet_panic_hook();
            let (evs, skipped) = record::fixtures_trace(&r, &repo, 1);
            let mut out = String::new();
            for e in &evs {
                out.push_str(&serde_json::to_string(e).unwrap());
                out.push('\n');
            }
            std::fs::write(&args[2], out).unwrap();
            println!("{}", serde_json::json!({"events": evs.len(), "skipped": skipped}));
            std::process::exit(0);
        }
        "record" => {
            // zkv record <trace.ndjson> --runs N --events N --max-l N
            let r = Ref::load(&layouts);
            libapi::install_quiet_panic_hook();
            let seed: u64 = std::env::var("VERIF_SEED").ok().and_then(|s| s.parse().ok()).unwrap_or(1);
            let (mut runs, mut events, mut max_l, mut salt) = (2usize, 300usize, 300usize, 0u64);
            let mut family = "all".to_string();
            let mut i = 3;
            while i < args.len() {
                match args[i].as_str() {
                    "--runs" => { runs = args[i + 1].parse().unwrap(); i += 2; }
                    "--events" => { events = args[i + 1].parse().unwrap(); i += 2; }
                    "--max-l" => { max_l = args[i + 1].parse().unwrap(); i += 2; }
                    "--salt" => { salt = args[i + 1].parse().unwrap(); i += 2; }
                    "--family" => { family = args[i + 1].clone(); i += 2; }
                    _ => usage(),
                }
            }
            let mut d = record::Driver::new(&r, seed.wrapping_mul(1000003).wrapping_add(salt), max_l);
            d.family = family;
            d.run(runs, events);
            let mut out = String::new();
            for e in &d.events {
                out.push_str(&serde_json::to_string(e).unwrap());
                out.push('\n');
            }
            std::fs::write(&args[2], out).unwrap();
            println!("recorded events={}", d.events.len());
            std::process::exit(0);
        }
        _ => usage(),
    }
}
