//! Replay of the `codec` / `untrusted` slices (properties C08, C09): every input
//! TLC enumerated for a decoder or for the count arithmetic of an entry point is
//! built concretely and handed to the real library under catch_unwind, with a
//! generator budget installed.

use crate::libapi::{self as lib, Out};
use crate::refimpl::*;
use crate::replay::prg;
use bls12_381_plus::{G1Affine, G2Affine, Scalar};
use group::Curve;
use serde_json::{json, Value};
use std::collections::BTreeMap;
use zkryptium::bbsplus::ciphersuites::Bls12381Sha256;
use zkryptium::bbsplus::commitment::BlindFactor;
use zkryptium::bbsplus::generators::Generators;
use zkryptium::bbsplus::keys::{BBSplusPublicKey, BBSplusSecretKey};
use zkryptium::bbsplus::proof::BBSplusZKPoK;
use zkryptium::schemes::algorithms::BBSplus;
use zkryptium::schemes::generics::{Commitment, PoKSignature, Signature};

type CS = Bls12381Sha256;

#[derive(Default)]
pub struct CReport {
    pub cases: usize,
    pub checks: BTreeMap<String, usize>,
    pub mismatches: Vec<Value>,
    pub skipped: usize,
    pub drift: usize,
    pub samples: Vec<Value>,
}
impl CReport {
    fn tick(&mut self, p: &str) {
        *self.checks.entry(p.into()).or_insert(0) += 1;
    }
}

pub struct Fix {
    sk: Vec<u8>,
    pk: Vec<u8>,
    msgs: Vec<Vec<u8>>,
    blind: Vec<u8>,
    honest: BTreeMap<(String, usize), Vec<u8>>,
}

const R_BYTES: [u8; 32] = [
    0x73, 0xed, 0xa7, 0x53, 0x29, 0x9d, 0x7d, 0x48, 0x33, 0x39, 0xd8, 0x08, 0x09, 0xa1, 0xd8, 0x05, 0x53, 0xbd, 0xa4, 0x02, 0xff, 0xfe, 0x5b, 0xfe, 0xff, 0xff, 0xff, 0xff, 0x00, 0x00, 0x00, 0x01,
];

fn g1_class(cl: &str, seed: u64) -> Vec<u8> {
    match cl {
        "identity" => {
            let mut v = vec![0u8; 48];
            v[0] = 0xc0;
            v
        }
        "badflags" => {
            // a valid x coordinate with the compression flag cleared
            let mut v = pt_bytes(&(bls12_381_plus::G1Projective::GENERATOR * Scalar::from(seed + 5))).to_vec();
            v[0] &= 0x7f;
            v
        }
        "offcurve" => {
            // x for which x^3 + 4 is not a square: try candidates until decompression fails
            let mut t = 0u64;
            loop {
                let mut v = prg(seed, "offcurve", t, 0, 48);
                v[0] = (v[0] & 0x1f) | 0x80;
                v[0] &= 0x9f; // below the field modulus (top bits small)
                v[0] = 0x80 | (v[0] & 0x0f);
                let arr: [u8; 48] = v.clone().try_into().unwrap();
                if bool::from(G1Affine::from_compressed_unchecked(&arr).is_none()) {
                    return v;
                }
                t += 1;
            }
        }
        "nosubgroup" => {
            let mut t = 0u64;
            loop {
                let mut v = prg(seed, "nosub", t, 0, 48);
                v[0] = 0x80 | (v[0] & 0x0f);
                let arr: [u8; 48] = v.clone().try_into().unwrap();
                let p = G1Affine::from_compressed_unchecked(&arr);
                if bool::from(p.is_some()) {
                    let p = p.unwrap();
                    if !bool::from(p.is_torsion_free()) {
                        return v;
                    }
                }
                t += 1;
            }
        }
        _ => panic!("class {cl}"),
    }
}
fn g2_class(cl: &str, seed: u64) -> Vec<u8> {
    match cl {
        "identity" => {
            let mut v = vec![0u8; 96];
            v[0] = 0xc0;
            v
        }
        "badflags" => {
            let mut v = pk_bytes(&(bls12_381_plus::G2Projective::GENERATOR * Scalar::from(seed + 5))).to_vec();
            v[0] &= 0x7f;
            v
        }
        "offcurve" => {
            let mut t = 0u64;
            loop {
                let mut v = prg(seed, "offcurve2", t, 0, 96);
                v[0] = 0x80 | (v[0] & 0x0f);
                v[48] &= 0x0f;
                let arr: [u8; 96] = v.clone().try_into().unwrap();
                if bool::from(G2Affine::from_compressed_unchecked(&arr).is_none()) {
                    return v;
                }
                t += 1;
            }
        }
        "nosubgroup" => {
            let mut t = 0u64;
            loop {
                let mut v = prg(seed, "nosub2", t, 0, 96);
                v[0] = 0x80 | (v[0] & 0x0f);
                v[48] &= 0x0f;
                let arr: [u8; 96] = v.clone().try_into().unwrap();
                let p = G2Affine::from_compressed_unchecked(&arr);
                if bool::from(p.is_some()) {
                    let p = p.unwrap();
                    if !bool::from(p.is_torsion_free()) {
                        return v;
                    }
                }
                t += 1;
            }
        }
        _ => panic!("class {cl}"),
    }
}
/// uncompressed G2 encodings (public-key coordinates) of the content classes
fn g2u_class(cl: &str, seed: u64) -> Vec<u8> {
    match cl {
        "identity" => {
            let mut v = vec![0u8; 192];
            v[0] = 0x40;
            v
        }
        "badflags" => {
            let mut v = (bls12_381_plus::G2Projective::GENERATOR * Scalar::from(seed + 5)).to_affine().to_uncompressed().to_vec();
            v[0] |= 0x80;
            v
        }
        "offcurve" => {
            let mut v = (bls12_381_plus::G2Projective::GENERATOR * Scalar::from(seed + 6)).to_affine().to_uncompressed().to_vec();
            v[191] ^= 1; // y altered: (x, y') is not on the curve
            v
        }
        "nosubgroup" => {
            let c = g2_class("nosubgroup", seed);
            let arr: [u8; 96] = c.try_into().unwrap();
            G2Affine::from_compressed_unchecked(&arr).unwrap().to_uncompressed().to_vec()
        }
        _ => panic!("class {cl}"),
    }
}

fn sc_class(cl: &str) -> Vec<u8> {
    match cl {
        "zero" => vec![0u8; 32],
        "ge_r" => R_BYTES.to_vec(),
        "max" => vec![0xffu8; 32],
        _ => panic!("class {cl}"),
    }
}

fn kinds(r: &Ref, codec: &str, n: usize) -> Vec<String> {
    let mut out = vec![];
    for f in &r.lay.wires[codec] {
        if f.k == "scs" {
            for _ in 0..n {
                out.push("sc".to_string());
            }
        } else {
            out.push(f.k.clone());
        }
    }
    out
}
fn flen(k: &str) -> usize {
    match k {
        "pt" => 48,
        "sc" => 32,
        "pk" => 96,
        "pku" => 192,
        _ => panic!(),
    }
}

impl Fix {
    pub fn new(seed: u64) -> Fix {
        let ikm = prg(seed, "ikm", 1, 0, 40);
        let (sk, pk) = lib::keygen(Suite::Sha, &ikm, None, None).ok().expect("keygen");
        let msgs: Vec<Vec<u8>> = (0..6).map(|i| prg(seed, "m", i, 0, 10 + i as usize)).collect();
        let blind = lib::guard_plain(None, || BlindFactor::random().to_bytes().to_vec()).ok().unwrap();
        Fix { sk, pk, msgs, blind, honest: BTreeMap::new() }
    }
    /// honest encoding of `codec` with n variable scalars
    pub fn honest(&mut self, codec: &str, n: usize) -> Vec<u8> {
        if let Some(v) = self.honest.get(&(codec.to_string(), n)) {
            return v.clone();
        }
        let v = match codec {
            "public_key" => self.pk.clone(),
            "secret_key" => self.sk.clone(),
            "blind_factor" => self.blind.clone(),
            "message_scalar" => {
                let m = self.msgs[0].clone();
                lib::guard(None, move || Ok(zkryptium::utils::message::bbsplus_message::BBSplusMessage::map_message_to_scalar_as_hash::<CS>(&m, b"BBS_BLS12381G1_XMD:SHA-256_SSWU_RO_H2G_HM2S_")?.to_bytes_be().to_vec())).ok().unwrap()
            }
            "signature" => lib::sign(Suite::Sha, &self.sk, &self.pk, &Some(b"h".to_vec()), &Some(self.msgs[..1].to_vec()), None).ok().unwrap(),
            "proof" => {
                let m = Some(self.msgs[..n].to_vec());
                let sig = lib::sign(Suite::Sha, &self.sk, &self.pk, &None, &m, None).ok().unwrap();
                lib::proof_gen(Suite::Sha, &self.pk, &sig, &None, &None, &m, &None, None).ok().unwrap()
            }
            "commitment" => lib::commit(Suite::Sha, &Some(self.msgs[..n].to_vec()), None).ok().unwrap().0,
            "zkpok" => self.honest("commitment", n)[48..].to_vec(),
            "pk_coords" => {
                let pk = self.pk.clone();
                lib::guard(None, move || {
                    let (x, y) = BBSplusPublicKey::from_bytes(&pk)?.to_coordinates();
                    Ok([&x[..], &y[..]].concat())
                })
                .ok()
                .unwrap()
            }
            _ => panic!("codec {codec}"),
        };
        self.honest.insert((codec.to_string(), n), v.clone());
        v
    }
}

fn map_num(x: u64) -> usize {
    match x {
        1000000 => usize::MAX,
        999999 => usize::MAX - 1,
        500000 => 1usize << 63,
        65536 => 1usize << 32,
        v => v as usize,
    }
}
fn map_list(v: &Value) -> Vec<usize> {
    v.as_array().unwrap().iter().map(|x| map_num(x.as_u64().unwrap())).collect()
}

/// decoders of the library for an arbitrary octet string; Ok carries the re-encoding
fn decode_with_lib(codec: &str, b: &[u8], fx: &Fix) -> Vec<(String, Out<Vec<u8>>)> {
    let b = b.to_vec();
    match codec {
        "public_key" => vec![("BBSplusPublicKey::from_bytes".into(), lib::guard(None, || Ok(BBSplusPublicKey::from_bytes(&b)?.to_bytes().to_vec())))],
        "pk_coords" => {
            if b.len() != 192 {
                return vec![]; // the API takes two [u8; 96]: other lengths cannot be expressed
            }
            vec![("BBSplusPublicKey::from_coordinates".into(), lib::guard(None, || {
                let x: [u8; 96] = b[..96].try_into().unwrap();
                let y: [u8; 96] = b[96..].try_into().unwrap();
                let p = BBSplusPublicKey::from_coordinates(&x, &y)?;
                let (x2, y2) = p.to_coordinates();
                Ok([&x2[..], &y2[..]].concat())
            }))]
        }
        "zkpok" => vec![("BBSplusZKPoK::from_bytes".into(), lib::guard(None, || Ok(BBSplusZKPoK::from_bytes(&b)?.to_bytes())))],
        "secret_key" => vec![("BBSplusSecretKey::from_bytes".into(), lib::guard(None, || Ok(BBSplusSecretKey::from_bytes(&b)?.to_bytes().to_vec())))],
        "message_scalar" => {
            if b.len() != 32 {
                return vec![];
            }
            let arr: [u8; 32] = b.clone().try_into().unwrap();
            vec![("BBSplusMessage::from_bytes_be".into(), lib::guard(None, || Ok(zkryptium::utils::message::bbsplus_message::BBSplusMessage::from_bytes_be(&arr)?.to_bytes_be().to_vec())))]
        }
        "blind_factor" => {
            if b.len() != 32 {
                return vec![]; // the API takes [u8; 32]: other lengths cannot be expressed
            }
            let arr: [u8; 32] = b.clone().try_into().unwrap();
            vec![("BlindFactor::from_bytes".into(), lib::guard(None, || Ok(BlindFactor::from_bytes(&arr)?.to_bytes().to_vec())))]
        }
        "signature" => {
            let mut v = vec![];
            if b.len() == 80 {
                let arr: [u8; 80] = b.clone().try_into().unwrap();
                v.push(("Signature::from_bytes".into(), lib::guard(None, || Ok(Signature::<BBSplus<CS>>::from_bytes(&arr)?.to_bytes().to_vec()))));
            }
            // the slice-taking entry point: proof_gen(pk, signature: &[u8], ..)
            let pk = fx.pk.clone();
            let m = fx.msgs[..1].to_vec();
            let bb = b.clone();
            v.push(("proof_gen(signature octets)".into(), lib::guard(None, move || {
                let pk = BBSplusPublicKey::from_bytes(&pk)?;
                PoKSignature::<BBSplus<CS>>::proof_gen(&pk, &bb, Some(b"h"), None, Some(&m), None)?;
                Ok(bb.clone())
            })));
            v
        }
        "proof" => vec![("PoKSignature::from_bytes".into(), lib::guard(None, || Ok(PoKSignature::<BBSplus<CS>>::from_bytes(&b)?.to_bytes())))],
        "commitment" => {
            let b2 = b.clone();
            let b3 = b.clone();
            vec![
                ("Commitment::from_bytes".into(), lib::guard(None, || Ok(Commitment::<BBSplus<CS>>::from_bytes(&b)?.to_bytes()))),
                ("tail:BBSplusZKPoK::from_bytes".into(), lib::guard(None, move || {
                    if b2.len() < 48 {
                        return Err(zkryptium::errors::Error::InvalidCommitmentProof);
                    }
                    let z = BBSplusZKPoK::from_bytes(&b2[48..])?;
                    Ok([&b2[..48], &z.to_bytes()[..]].concat())
                })),
                ("deserialize_and_validate_commit".into(), lib::guard(Some(4 * (b3.len() / 32 + 2) + 16), move || {
                    let m = b3.len().saturating_sub(80) / 32;
                    let g = Generators::create::<CS>(m + 1, Some(b"BLIND_BBS_BLS12381G1_XMD:SHA-256_SSWU_RO_BLIND_H2G_HM2S_"));
                    let _ = Commitment::<BBSplus<CS>>::deserialize_and_validate_commit(Some(&b3), &g, Some(b"BBS_BLS12381G1_XMD:SHA-256_SSWU_RO_BLIND_H2G_HM2S_"));
                    // validity of the proof is not the point here: only totality
                    Err(zkryptium::errors::Error::InvalidCommitmentProof)
                })),
            ]
        }
        _ => panic!(),
    }
}

pub fn run(r: &Ref, cases: &[Value], seed: u64, flip_stride: usize) -> CReport {
    let mut rep = CReport::default();
    let mut fx = Fix::new(seed);
    let mm = |rep: &mut CReport, prop: &str, case: &Value, what: String, exp: &str, obs: String, input: &[u8]| {
        rep.mismatches.push(json!({"property": prop, "what": what, "expected": exp, "observed": obs, "case": case, "input": hex::encode(input), "seed": seed}));
    };
    for c in cases {
        rep.cases += 1;
        match c["kind"].as_str().unwrap() {
            "decode" => {
                let codec = c["codec"].as_str().unwrap();
                let n = c["n"].as_u64().unwrap() as usize;
                let mut b = fx.honest(codec, n);
                let ks = kinds(r, codec, n);
                let mut off = 0;
                for (j, k) in ks.iter().enumerate() {
                    let cl = c["cls"][j].as_str().unwrap();
                    if cl != "valid" {
                        let rep_bytes = match k.as_str() {
                            "pt" => g1_class(cl, seed),
                            "pk" => g2_class(cl, seed),
                            "pku" => g2u_class(cl, seed),
                            _ => sc_class(cl),
                        };
                        b[off..off + flen(k)].copy_from_slice(&rep_bytes);
                    }
                    off += flen(k);
                }
                let delta = c["delta"].as_i64().unwrap();
                if delta > 0 {
                    b.extend(std::iter::repeat(0u8).take(delta as usize));
                } else {
                    let nl = (b.len() as i64 + delta) as usize;
                    b.truncate(nl);
                }
                let exp = c["res"].as_str().unwrap();
                if rep.samples.len() < 2 {
                    rep.samples.push(json!({"case": c, "input": hex::encode(&b)}));
                }
                for (name, got) in decode_with_lib(codec, &b, &fx) {
                    rep.tick("C08");
                    if got.class() == "Panic" {
                        mm(&mut rep, "C08", c, format!("{name} panicked"), exp, got.detail(), &b);
                        continue;
                    }
                    if name.starts_with("deserialize_and_validate") || name.starts_with("tail:") {
                        continue; // totality only
                    }
                    rep.tick("C09");
                    // the property demands: forbidden classes are rejected, honest encodings are accepted, and whatever
                    // is accepted re-encodes to itself.  An input that is neither forbidden nor an honest encoding
                    // (zero scalars, whole zero scalars appended) may be rejected by a stricter decoder: drift only.
                    let honest_input = delta == 0 && (0..ks.len()).all(|j| c["cls"][j].as_str() == Some("valid"));
                    if got.class() != exp && exp == "Ok" && !honest_input && got.class() == "Err" {
                        rep.drift += 1;
                    } else if got.class() != exp {
                        mm(&mut rep, "C09", c, format!("decision of {name}"), exp, got.detail(), &b);
                    } else if let Out::Ok(re) = &got {
                        rep.tick("C09");
                        if *re != b {
                            mm(&mut rep, "C09", c, format!("{name}: accepted octets do not re-encode to themselves"), &hex::encode(&b), hex::encode(re), &b);
                        }
                    }
                }
            }
            "counts" => {
                let a = &c["a"];
                let exp = c["res"].as_str().unwrap();
                let op = c["op"].as_str().unwrap();
                let msgs = fx.msgs.clone();
                let (pk, sk) = (fx.pk.clone(), fx.sk.clone());
                let (got, size): (Out<()>, usize) = match op {
                    "ProofVerify" | "BlindProofVerify" => {
                        let u = a["U"].as_u64().unwrap() as usize;
                        let proof = fx.honest("proof", u);
                        let nm = a["nmsgs"].as_u64().unwrap() as usize;
                        let dm = Some(msgs[..nm].to_vec());
                        if op == "ProofVerify" {
                            let ix = map_list(&a["ix"]);
                            let size = proof.len() / 32 + ix.len() + nm;
                            (lib::proof_verify(Suite::Sha, &proof, &pk, &None, &None, &dm, &Some(ix), Some(4 * size + 16)), size)
                        } else {
                            let ix1 = map_list(&a["ix1"]);
                            let ix2 = map_list(&a["ix2"]);
                            let l = map_num(a["L"].as_u64().unwrap());
                            let n1 = nm.min(ix1.len());
                            let size = proof.len() / 32 + ix1.len() + ix2.len() + nm;
                            (lib::blind_proof_verify(Suite::Sha, &proof, &pk, &None, &None, Some(l), &Some(msgs[..n1].to_vec()), &Some(msgs[n1..nm].to_vec()), &Some(ix1), &Some(ix2), Some(4 * size + 16)), size)
                        }
                    }
                    "Update" => {
                        let idx = map_num(a["idx"].as_u64().unwrap());
                        let n = map_num(a["n"].as_u64().unwrap());
                        let sig = fx.honest("signature", 0);
                        // n is a declared count: n + 1 generators are within budget; execution is
                        // skipped when that alone would exceed 10^6 generators
                        let size = n.min(1 << 40);
                        if n > 100_000 {
                            // an absurd declared count: the call is followed for its first 64 generators only; being
                            // stopped there is the declared work, anything else (a crash before the first generator)
                            // is the callee's
                            let got = lib::update_declared(Suite::Sha, &sig, &sk, &msgs[0], &msgs[1], idx, n, 64).map(|_| ());
                            let got = match got {
                                Out::Panic(p) if p.starts_with("GenBudgetExceeded") => Out::Err("declared work".into()),
                                g => g,
                            };
                            (got, size)
                        } else {
                            (lib::update(Suite::Sha, &sig, &sk, &msgs[0], &msgs[1], idx, n, Some(4usize.saturating_mul(size).saturating_add(16).min(2_000_000))).map(|_| ()), size)
                        }
                    }
                    "ProofGen" => {
                        let l = a["L"].as_u64().unwrap() as usize;
                        let ix = map_list(&a["ix"]);
                        let m = Some(msgs[..l].to_vec());
                        let sig = lib::sign(Suite::Sha, &sk, &pk, &None, &m, None).ok().unwrap();
                        let size = l + ix.len() + 3;
                        (lib::proof_gen(Suite::Sha, &pk, &sig, &None, &None, &m, &Some(ix), Some(4 * size + 16)).map(|_| ()), size)
                    }
                    "BlindProofGen" => {
                        let l = a["L"].as_u64().unwrap() as usize;
                        let m = a["M"].as_u64().unwrap() as usize;
                        let ix1 = map_list(&a["ix1"]);
                        let ix2 = map_list(&a["ix2"]);
                        let ms = Some(msgs[..l].to_vec());
                        let cs = Some(msgs[l..l + m].to_vec());
                        let (cb, bl) = lib::commit(Suite::Sha, &cs, None).ok().unwrap();
                        let sig = lib::blind_sign(Suite::Sha, &sk, &pk, &Some(cb), &None, &ms, None).ok().unwrap();
                        let size = l + m + ix1.len() + ix2.len() + 4;
                        (lib::blind_proof_gen(Suite::Sha, &pk, &sig, &None, &None, &ms, &cs, &Some(ix1), &Some(ix2), &Some(bl), Some(4 * size + 16)).map(|_| ()), size)
                    }
                    _ => panic!("op {op}"),
                };
                let _ = size;
                rep.tick("C08");
                let ok = match (exp, got.class()) {
                    ("Err", "Err") => true,
                    ("Pass", "Ok") | ("Pass", "Err") => true,
                    _ => false,
                };
                if rep.samples.len() < 4 {
                    rep.samples.push(json!({"case": c, "observed": got.detail()}));
                }
                if !ok {
                    mm(&mut rep, "C08", c, format!("{op} on untrusted numbers"), exp, got.detail(), &[]);
                }
            }
            k => panic!("kind {k}"),
        }
    }
    // C09 (b): single-bit flips of every honest encoding: whatever still decodes re-encodes to itself
    if flip_stride > 0 {
        for (codec, n) in [("public_key", 0usize), ("pk_coords", 0), ("zkpok", 1), ("message_scalar", 0), ("secret_key", 0), ("blind_factor", 0), ("signature", 0), ("proof", 0), ("proof", 2), ("commitment", 0), ("commitment", 2)] {
            let h = fx.honest(codec, n);
            let mut k = (seed as usize) % flip_stride;
            for byte in 0..h.len() {
                for bit in 0..8 {
                    k += 1;
                    if k % flip_stride != 0 {
                        continue;
                    }
                    let mut b = h.clone();
                    b[byte] ^= 1 << bit;
                    for (name, got) in decode_with_lib(codec, &b, &fx) {
                        if name.starts_with("deserialize_and_validate") || name.starts_with("proof_gen") {
                            continue;
                        }
                        rep.tick("C09");
                        match got {
                            Out::Panic(p) => rep.mismatches.push(json!({"property": "C08", "what": format!("{name} panicked on a bit flip"), "observed": p, "input": hex::encode(&b)})),
                            Out::Ok(re) if re != b => rep.mismatches.push(json!({"property": "C09", "what": format!("{name}: flipped octets accepted but re-encode differently"), "input": hex::encode(&b), "observed": hex::encode(&re)})),
                            _ => {}
                        }
                    }
                }
            }
        }
    }
    rep
}

/// C09 (a): every artefact the API produces survives every codec the API offers
/// (octets, public-key coordinates, JSON); C08: malformed JSON never panics.
pub fn roundtrips(seed: u64, rep: &mut CReport) {
    use zkryptium::keys::pair::KeyPair;
    let mut fx = Fix::new(seed);
    let bad = |rep: &mut CReport, prop: &str, what: String| {
        rep.mismatches.push(json!({"property": prop, "what": what, "seed": seed}));
    };
    for s in Suite::all() {
        for round in 0..4u64 {
            let ikm = prg(seed, "rt-ikm", round, s as u64, 32 + round as usize);
            let (sk, pk) = lib::keygen(s, &ikm, Some(b"info"), None).ok().unwrap();
            // public key: octets, coordinates, JSON
            rep.tick("C09");
            let r1 = lib::guard(None, || {
                let p = BBSplusPublicKey::from_bytes(&pk)?;
                let (x, y) = p.to_coordinates();
                let q = BBSplusPublicKey::from_coordinates(&x, &y)?;
                let j = serde_json::to_string(&p).unwrap();
                let p2: BBSplusPublicKey = serde_json::from_str(&j).map_err(|_| zkryptium::errors::Error::KeyDeserializationError)?;
                Ok(p == q && p2 == p && q.to_bytes().to_vec() == pk && p.encode() == hex::encode(&pk))
            });
            if r1 != Out::Ok(true) {
                bad(rep, "C09", format!("public key does not survive its codecs: {}", r1.detail()));
            }
            rep.tick("C09");
            let r2 = lib::guard(None, || {
                let k = BBSplusSecretKey::from_bytes(&sk)?;
                let j = serde_json::to_string(&k).unwrap();
                let k2: BBSplusSecretKey = serde_json::from_str(&j).map_err(|_| zkryptium::errors::Error::KeyDeserializationError)?;
                Ok(k2 == k && k.to_bytes().to_vec() == sk && k.public_key().to_bytes().to_vec() == pk)
            });
            if r2 != Out::Ok(true) {
                bad(rep, "C09", format!("secret key does not survive its codecs: {}", r2.detail()));
            }
            // key pair JSON
            rep.tick("C09");
            let r3 = lib::guard(None, || {
                let kp = KeyPair::<BBSplus<CS>>::generate(&ikm, Some(b"info"), None)?;
                let j = serde_json::to_string(&kp).unwrap();
                let kp2: KeyPair<BBSplus<CS>> = serde_json::from_str(&j).map_err(|_| zkryptium::errors::Error::KeyDeserializationError)?;
                Ok(kp2 == kp)
            });
            if r3 != Out::Ok(true) {
                bad(rep, "C09", format!("key pair does not survive JSON: {}", r3.detail()));
            }
            // signature / proof / commitment through JSON
            let msgs = Some(fx.msgs[..(round as usize + 1)].to_vec());
            let sig = lib::sign(s, &sk, &pk, &Some(b"hdr".to_vec()), &msgs, None).ok().unwrap();
            let proof = lib::proof_gen(s, &pk, &sig, &Some(b"hdr".to_vec()), &None, &msgs, &Some(vec![0]), None).ok().unwrap();
            let (cm, bl) = lib::commit(s, &msgs, None).ok().unwrap();
            rep.tick("C09");
            let r4 = lib::guard(None, || {
                let sg = Signature::<BBSplus<CS>>::from_bytes(&sig.clone().try_into().unwrap())?;
                let j = serde_json::to_string(&sg).unwrap();
                let sg2: Signature<BBSplus<CS>> = serde_json::from_str(&j).map_err(|_| zkryptium::errors::Error::InvalidSignature)?;
                let p = PoKSignature::<BBSplus<CS>>::from_bytes(&proof)?;
                let j = serde_json::to_string(&p).unwrap();
                let p2: PoKSignature<BBSplus<CS>> = serde_json::from_str(&j).map_err(|_| zkryptium::errors::Error::InvalidProofOfKnowledgeSignature)?;
                let c = Commitment::<BBSplus<CS>>::from_bytes(&cm)?;
                let j = serde_json::to_string(&c).unwrap();
                let c2: Commitment<BBSplus<CS>> = serde_json::from_str(&j).map_err(|_| zkryptium::errors::Error::InvalidCommitment)?;
                let b = BlindFactor::from_bytes(&bl.clone().try_into().unwrap())?;
                Ok(sg2 == sg && sg2.to_bytes().to_vec() == sig && p2 == p && p2.to_bytes() == proof && c2 == c && c2.to_bytes() == cm && b.to_bytes().to_vec() == bl)
            });
            if r4 != Out::Ok(true) {
                bad(rep, "C09", format!("signature / proof / commitment / blind factor do not survive their codecs: {}", r4.detail()));
            }
            // malformed JSON: truncations and mistyped values must give Err, never panic
            let js = lib::proof_to_json(s, &proof).ok().unwrap();
            let mut variants: Vec<String> = (0..js.len()).step_by(7).map(|k| js[..k].to_string()).collect();
            variants.push(js.replace('"', ""));
            variants.push(js.replace("BBSplus", "CL03"));
            variants.push("{\"BBSplus\":{\"Abar\":1}}".to_string());
            variants.push("[]".to_string());
            variants.push("null".to_string());
            for v in variants {
                rep.tick("C08");
                let g = lib::proof_verify_json(s, &v, &pk, &None, &None, &None, &None);
                if let Out::Panic(p) = g {
                    bad(rep, "C08", format!("serde_json decoding of a proof panicked: {p}"));
                }
            }
            // every variant name an enum-typed artefact could be given in JSON, with and without a body
            for kind in ["signature", "blind_signature", "proof", "commitment"] {
                for js in ["{\"_Unreachable\":null}", "{\"_Unreachable\":[]}", "\"_Unreachable\"", "{\"CL03\":null}", "{\"BBSplus\":null}", "{\"Unknown\":null}"] {
                    rep.tick("C08");
                    if let Out::Panic(p) = lib::json_probe(s, kind, js, &pk) {
                        bad(rep, "C08", format!("serde_json decoding of a {kind} from {js} gives a value whose use panics: {p}"));
                    }
                }
            }
        }
    }
    let _ = fx.honest("public_key", 0);
}
