//! The reference evaluator must reproduce every fixture under fixture_data/ and
//! fixture_data_blind/ before any comparison against it is believed.

use crate::refimpl::*;
use bls12_381_plus::Scalar;
use serde_json::Value;
use std::fs;

fn hx(v: &Value) -> Vec<u8> {
    hex::decode(v.as_str().unwrap_or_else(|| panic!("expected hex string, got {v}"))).unwrap()
}
fn hxs(v: &Value) -> Vec<Vec<u8>> {
    v.as_array().map(|a| a.iter().map(hx).collect()).unwrap_or_default()
}
fn sc(v: &Value) -> Scalar {
    scalar_from_be(&hx(v)).expect("fixture scalar")
}
fn load(p: &str) -> Value {
    serde_json::from_str(&fs::read_to_string(p).unwrap_or_else(|e| panic!("{p}: {e}"))).unwrap()
}
fn idx_map(v: &Value) -> (Vec<usize>, Vec<Vec<u8>>) {
    // {"0": hex, "2": hex} -> sorted by index
    let mut pairs: Vec<(usize, Vec<u8>)> = v
        .as_object()
        .map(|o| o.iter().map(|(k, h)| (k.parse().unwrap(), hx(h))).collect())
        .unwrap_or_default();
    pairs.sort();
    (pairs.iter().map(|p| p.0).collect(), pairs.into_iter().map(|p| p.1).collect())
}

pub struct Tally {
    pub checked: usize,
    pub failed: Vec<String>,
}
impl Tally {
    fn ok(&mut self, cond: bool, what: String) {
        self.checked += 1;
        if !cond {
            self.failed.push(what);
        }
    }
}

pub fn run(r: &Ref, repo: &str) -> Tally {
    let mut t = Tally { checked: 0, failed: vec![] };
    for (suite, dir) in [(Suite::Sha, "bls12-381-sha-256"), (Suite::Shake, "bls12-381-shake-256")] {
        let base = format!("{repo}/fixture_data/{dir}");
        let api = r.api_id(suite, Iface::Plain);
        // key pair
        let k = load(&format!("{base}/keypair.json"));
        let sk = r.keygen(suite, &hx(&k["keyMaterial"]), &hx(&k["keyInfo"]), Some(&hx(&k["keyDst"]))).unwrap();
        t.ok(sc_bytes(&sk).to_vec() == hx(&k["keyPair"]["secretKey"]), format!("{dir} keygen sk"));
        t.ok(pk_bytes(&r.sk_to_pk(&sk)).to_vec() == hx(&k["keyPair"]["publicKey"]), format!("{dir} sk_to_pk"));
        // default key dst = api_id || KEYGEN_DST_
        let sk2 = r.keygen(suite, &hx(&k["keyMaterial"]), &hx(&k["keyInfo"]), None).unwrap();
        t.ok(sk2 == sk, format!("{dir} default key_dst"));
        // generators
        let g = load(&format!("{base}/generators.json"));
        let exp = hxs(&g["MsgGenerators"]);
        let gens = r.generators(suite, &api, exp.len() + 1);
        t.ok(pt_bytes(&r.p1(suite)).to_vec() == hx(&g["P1"]), format!("{dir} P1"));
        t.ok(pt_bytes(&gens[0]).to_vec() == hx(&g["Q1"]), format!("{dir} Q1"));
        for (i, e) in exp.iter().enumerate() {
            t.ok(&pt_bytes(&gens[i + 1]).to_vec() == e, format!("{dir} H_{i}"));
        }
        // h2s
        let h = load(&format!("{base}/h2s.json"));
        t.ok(sc_bytes(&r.h2s(suite, &hx(&h["message"]), &hx(&h["dst"])).unwrap()).to_vec() == hx(&h["scalar"]), format!("{dir} h2s"));
        // map message to scalar
        let m = load(&format!("{base}/MapMessageToScalarAsHash.json"));
        for c in m["cases"].as_array().unwrap() {
            t.ok(sc_bytes(&r.msg_scalar(suite, &api, &hx(&c["message"]))).to_vec() == hx(&c["scalar"]), format!("{dir} map_msg"));
        }
        // mocked rng
        let mr = load(&format!("{base}/mockedRng.json"));
        let cnt = mr["count"].as_u64().unwrap() as usize;
        let got = r.seeded_scalars(suite, &hx(&mr["seed"]), &hx(&mr["dst"]), cnt);
        for (i, e) in hxs(&mr["mockedScalars"]).iter().enumerate() {
            t.ok(&sc_bytes(&got[i]).to_vec() == e, format!("{dir} mocked scalar {i}"));
        }
        // signatures
        let mut files: Vec<_> = fs::read_dir(format!("{base}/signature")).unwrap().map(|e| e.unwrap().path()).collect();
        files.sort();
        for f in files {
            let name = format!("{dir}/{}", f.file_name().unwrap().to_string_lossy());
            let j = load(f.to_str().unwrap());
            let sk = sc(&j["signerKeyPair"]["secretKey"]);
            let pk = g2_from(&hx(&j["signerKeyPair"]["publicKey"])).unwrap();
            let hdr = hx(&j["header"]);
            let msgs = hxs(&j["messages"]);
            let sig = r.sig_decode(&hx(&j["signature"])).unwrap();
            let valid = j["result"]["valid"].as_bool().unwrap();
            t.ok(r.verify(suite, &pk, &sig, &hdr, &msgs) == valid, format!("{name} verify"));
            if valid {
                let s2 = r.sign(suite, &sk, &pk, &hdr, &msgs).unwrap();
                t.ok(r.sig_encode(&s2) == hx(&j["signature"]), format!("{name} sign bytes"));
            }
        }
        // proofs
        let mut files: Vec<_> = fs::read_dir(format!("{base}/proof")).unwrap().map(|e| e.unwrap().path()).collect();
        files.sort();
        for f in files {
            let name = format!("{dir}/{}", f.file_name().unwrap().to_string_lossy());
            let j = load(f.to_str().unwrap());
            let pk = g2_from(&hx(&j["signerPublicKey"])).unwrap();
            let hdr = hx(&j["header"]);
            let ph = hx(&j["presentationHeader"]);
            let msgs = hxs(&j["messages"]);
            let disc: Vec<usize> = j["disclosedIndexes"].as_array().unwrap().iter().map(|x| x.as_u64().unwrap() as usize).collect();
            let valid = j["result"]["valid"].as_bool().unwrap();
            let proof_bytes = hx(&j["proof"]);
            let dmsgs: Vec<Vec<u8>> = disc.iter().map(|&i| msgs[i].clone()).collect();
            let dec = r.proof_decode(&proof_bytes);
            let got = match &dec {
                Ok(p) => r.proof_verify(suite, &pk, p, &hdr, &ph, &dmsgs, &disc),
                Err(_) => false,
            };
            t.ok(got == valid, format!("{name} proof_verify"));
            if valid {
                let rs = &j["trace"]["random_scalars"];
                let mut rnd = vec![sc(&rs["r1"]), sc(&rs["r2"]), sc(&rs["e_tilde"]), sc(&rs["r1_tilde"]), sc(&rs["r3_tilde"])];
                for x in rs["m_tilde_scalars"].as_array().unwrap() {
                    rnd.push(sc(x));
                }
                let sig = r.sig_decode(&hx(&j["signature"])).unwrap();
                let p = r.proof_gen(suite, &pk, &sig, &hdr, &ph, &msgs, &disc, &rnd).unwrap();
                t.ok(r.proof_encode(&p) == proof_bytes, format!("{name} proof bytes"));
            }
        }

        // ------------------------------------------------------------ blind
        let bbase = format!("{repo}/fixture_data_blind/{dir}");
        let all = load(&format!("{repo}/fixture_data_blind/messages.json"));
        let all_msgs = hxs(&all["messages"]);
        let all_cmsgs = hxs(&all["committedMessages"]);
        let g = load(&format!("{bbase}/generators.json"));
        let bapi = r.api_id(suite, Iface::Blind);
        t.ok(g["generators"]["api_id"].as_str().unwrap().as_bytes() == &bapi[..], format!("{dir} blind api_id"));
        t.ok(g["blindGenerators"]["api_id"].as_str().unwrap().as_bytes() == &r.blind_gen_api(suite)[..], format!("{dir} blind gen api_id"));
        for (key, api) in [("generators", bapi.clone()), ("blindGenerators", r.blind_gen_api(suite))] {
            let exp = hxs(&g[key]["MsgGenerators"]);
            let gens = r.generators(suite, &api, exp.len() + 1);
            t.ok(pt_bytes(&r.p1(suite)).to_vec() == hx(&g[key]["P1"]), format!("{dir} {key} P1"));
            t.ok(pt_bytes(&gens[0]).to_vec() == hx(&g[key]["Q1"]), format!("{dir} {key} Q1"));
            for (i, e) in exp.iter().enumerate() {
                t.ok(&pt_bytes(&gens[i + 1]).to_vec() == e, format!("{dir} {key} H_{i}"));
            }
        }
        // commitments
        let mut files: Vec<_> = fs::read_dir(format!("{bbase}/commit")).unwrap().map(|e| e.unwrap().path()).collect();
        files.sort();
        for f in files {
            let name = format!("{dir}/blind/{}", f.file_name().unwrap().to_string_lossy());
            let j = load(f.to_str().unwrap());
            let cmsgs = hxs(&j["committedMessages"]);
            let rs = &j["trace"]["random_scalars"];
            let mut rnd = vec![sc(&j["proverBlind"]), sc(&rs["s_tilde"])];
            for x in rs["m_tildes"].as_array().unwrap() {
                rnd.push(sc(x));
            }
            let (c, blind) = r.commit(suite, &cmsgs, &rnd).unwrap();
            t.ok(r.commit_encode(&c) == hx(&j["commitmentWithProof"]), format!("{name} commit bytes"));
            t.ok(sc_bytes(&blind).to_vec() == hx(&j["proverBlind"]), format!("{name} blind"));
            let dec = r.commit_decode(&hx(&j["commitmentWithProof"])).unwrap();
            t.ok(r.commit_verify(suite, &dec) == j["result"]["valid"].as_bool().unwrap(), format!("{name} commit_verify"));
            // the mocked scalars of the fixture come from the seeded generator
            let mp = &j["mockRngParameters"];
            let cnt = mp["commit"]["count"].as_u64().unwrap() as usize;
            let ms = r.seeded_scalars(suite, mp["SEED"].as_str().unwrap().as_bytes(), mp["commit"]["DST"].as_str().unwrap().as_bytes(), cnt);
            t.ok(ms[..rnd.len().min(cnt)] == rnd[..rnd.len().min(cnt)], format!("{name} mocked scalars"));
        }
        // blind signatures
        let mut files: Vec<_> = fs::read_dir(format!("{bbase}/signature")).unwrap().map(|e| e.unwrap().path()).collect();
        files.sort();
        for f in files {
            let name = format!("{dir}/blind/{}", f.file_name().unwrap().to_string_lossy());
            let j = load(f.to_str().unwrap());
            let sk = sc(&j["signerKeyPair"]["secretKey"]);
            let pk = g2_from(&hx(&j["signerKeyPair"]["publicKey"])).unwrap();
            let hdr = hx(&j["header"]);
            let msgs = hxs(&j["messages"]);
            let cmsgs = hxs(&j["committedMessages"]);
            let commit = j["commitmentWithProof"].as_str().map(|s| r.commit_decode(&hex::decode(s).unwrap()).unwrap());
            let blind = j["proverBlind"].as_str().map(|s| scalar_from_be(&hex::decode(s).unwrap()).unwrap()).unwrap_or(Scalar::ZERO);
            let s2 = r.blind_sign(suite, &sk, &pk, commit.as_ref(), &hdr, &msgs).unwrap();
            t.ok(r.sig_encode(&s2) == hx(&j["signature"]), format!("{name} blind_sign bytes"));
            let valid = j["result"]["valid"].as_bool().unwrap();
            t.ok(r.blind_verify(suite, &pk, &s2, &hdr, &msgs, &cmsgs, &blind) == valid, format!("{name} blind_verify"));
        }
        // blind proofs
        let mut files: Vec<_> = fs::read_dir(format!("{bbase}/proof")).unwrap().map(|e| e.unwrap().path()).collect();
        files.sort();
        for f in files {
            let name = format!("{dir}/blind/{}", f.file_name().unwrap().to_string_lossy());
            let j = load(f.to_str().unwrap());
            let pk = g2_from(&hx(&j["signerPublicKey"])).unwrap();
            let hdr = hx(&j["header"]);
            let ph = hx(&j["presentationHeader"]);
            let sig = r.sig_decode(&hx(&j["signature"])).unwrap();
            let (didx, dmsgs) = idx_map(&j["revealedMessages"]);
            let has_c = j["revealedCommittedMessages"].is_object();
            let (dcidx, dcmsgs) = idx_map(&j["revealedCommittedMessages"]);
            let cm: Vec<Vec<u8>> = if has_c { all_cmsgs.clone() } else { vec![] };
            let blind = j["proverBlind"].as_str().map(|s| scalar_from_be(&hex::decode(s).unwrap()).unwrap()).unwrap_or(Scalar::ZERO);
            let rs = &j["trace"]["random_scalars"];
            let mut rnd = vec![sc(&rs["r1"]), sc(&rs["r2"]), sc(&rs["e_tilde"]), sc(&rs["r1_tilde"]), sc(&rs["r3_tilde"])];
            for x in rs["m_tilde_scalars"].as_array().unwrap() {
                rnd.push(sc(x));
            }
            let p = r.blind_proof_gen(suite, &pk, &sig, &hdr, &ph, &all_msgs, &cm, &didx, &dcidx, &blind, &rnd);
            match p {
                Ok(p) => {
                    t.ok(r.proof_encode(&p) == hx(&j["proof"]), format!("{name} blind proof bytes"));
                }
                Err(e) => t.ok(false, format!("{name} blind_proof_gen {e:?}")),
            }
            let dec = r.proof_decode(&hx(&j["proof"])).unwrap();
            let l = j["L"].as_u64().unwrap() as usize;
            let valid = j["result"]["valid"].as_bool().unwrap();
            t.ok(r.blind_proof_verify(suite, &pk, &dec, &hdr, &ph, l, &dmsgs, &dcmsgs, &didx, &dcidx) == valid, format!("{name} blind_proof_verify"));
        }
    }
    t
}
