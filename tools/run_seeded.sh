#!/bin/bash
# Re-run the checks against every seeded change kept under /verif/seeded (regression test of the framework).
#   usage: tools/run_seeded.sh <log> [tier] [ids...]      e.g. tools/run_seeded.sh build/seeded.log quick C05-B
# Applies each patch to /repo, runs ./check <property> <tier>, reverts. Never commits anything in /repo.
LOG=$1; TIER=${2:-quick}; shift 2
cd /verif
ids="$@"; [ -z "$ids" ] && ids=$(ls seeded)
for id in $ids; do
  prop=${id%%-*}
  echo "=== $id" >> $LOG
  if ! git -C /repo apply --3way /verif/seeded/$id/patch.diff >> $LOG 2>&1; then echo "  APPLY-FAILED" >> $LOG; git -C /repo checkout -- . ; git -C /repo reset -q --hard HEAD; continue; fi
  git -C /repo reset -q
  ./check $prop $TIER 2>&1 | grep -E "^(OK|VIOLATION|TOOL-ERROR)" | head -2 | sed 's/^/  /' >> $LOG
  git -C /repo checkout -- .
  [ -n "$(git -C /repo status --short | grep -v '^??')" ] && echo "  WARNING: /repo not clean" >> $LOG
done
echo "=== done" >> $LOG
