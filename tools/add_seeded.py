#!/usr/bin/env python3
"""Store a confirmed seeded change under /verif/seeded/<name>/.
usage: add_seeded.py <stage_dir> <prop> <variant> <name> <confirm_log> <detect_log> [detect_log ...]
  <stage_dir>/<prop>/<variant>/{patch.diff|patch_ported.diff, demo.rs, notes.md}
  confirm_log: output of tools/confirm_mutants.sh; detect_log(s): output of tools/run_mutants.sh"""
import json, os, re, shutil, sys

stage, prop, var, name, confirm = sys.argv[1:6]
ROUND = int(os.environ.get("SEED_ROUND", "2"))
dlogs = sys.argv[6:]
src = os.path.join(stage, prop, var)
dst = os.path.join("/verif/seeded", name)
os.makedirs(dst, exist_ok=True)
patch = os.path.join(src, "patch_ported.diff")
if not os.path.exists(patch):
    patch = os.path.join(src, "patch.diff")
shutil.copy(patch, os.path.join(dst, "patch.diff"))
for f in ("demo.rs", "notes.md"):
    if os.path.exists(os.path.join(src, f)):
        shutil.copy(os.path.join(src, f), os.path.join(dst, f))
notes = open(os.path.join(src, "notes.md")).read() if os.path.exists(os.path.join(src, "notes.md")) else ""
title = next((l.strip() for l in notes.splitlines() if l.strip()), "")
needs = ""
m = re.search(r"(?ims)^#+\s*(what is needed[^\n]*|trigger[^\n]*|what triggers[^\n]*|needs[^\n]*)\n(.*?)(?=^#|\Z)", notes)
if m:
    needs = " ".join(m.group(2).split())[:400]
conf = ""
for l in open(confirm):
    if l.startswith("%s/%s " % (prop, var)):
        conf = l.strip()
hist = []
detected = False
for dl in dlogs:
    cur = None
    for l in open(dl):
        if l.startswith("=== "):
            cur = l.split()[1]
        elif cur == "%s/%s" % (prop, var) and re.search(r"\[(C\d\d)\] (OK|VIOLATION|TOOL-ERROR)", l):
            r = re.search(r"\[(C\d\d)\] (OK|VIOLATION|TOOL-ERROR)", l)
            hist.append("%s: %s %s" % (os.path.basename(dl), r.group(1), r.group(2)))
            detected = r.group(2) == "VIOLATION"
meta = {
    "property": prop, "variant": var, "round": ROUND, "breaks": title, "needs_to_manifest": needs,
    "produced_by": "fresh sub-agent (later round: asked for a mechanism different from the earlier rounds) given only the text of the property and a scratch worktree of /repo",
    "patch_applies_to": "HEAD of /repo (after the fix: commits)",
    "confirmed": {"how": "tools/confirm_mutants.sh in a scratch worktree: demo on clean tree, git apply, cargo test --offline (98) [+ cargo test --features cl03 cl1024 (6) for CL03], demo with the change",
                  "result": conf},
    "detection": {"check": "./check %s quick" % prop, "detected": detected, "history": hist},
    "run_demo": "cp demo.rs <worktree>/examples/mutdemo.rs && cargo run --offline --example mutdemo",
}
json.dump(meta, open(os.path.join(dst, "meta.json"), "w"), indent=1)
print(name, "detected" if detected else "NOT DETECTED", conf)
