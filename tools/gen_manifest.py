#!/usr/bin/env python3
"""Regenerate /verif/MANIFEST.json from the tables in runner.py (PROPS) and the
per-property texts below.  Properties not in PROPS are listed under not_applicable."""
import json, os, sys
sys.path.insert(0, os.path.dirname(os.path.abspath(__file__)))
import runner

ROOT = runner.ROOT
ALL = [json.loads(l) for l in open(os.path.join(ROOT, "properties.jsonl"))]

NOT_BUILT = "check not built yet (framework under construction; DESIGN.md section 9 gives the plan)"
NA = {}

def entry(pid):
    p = runner.PROPS[pid]
    return {
        "property_id": pid,
        "quick_cmd": "./check %s quick" % pid,
        "thorough_cmd": "./check %s thorough" % pid,
        "evidence_file": "/verif/evidence/%s.json" % pid,
        "replay_cmd_template": "./check %s --replay {path}" % pid,
        "engine": "tlc+zkv",
        "level_claimed": {
            "category": p.get("level", "model_checking"),
            "text": p["level_text"],
            "design_ref": p.get("design_ref", "DESIGN.md section 4, " + pid),
        },
        "level_note": p.get("level_note", "Trusted base: TLC; the toy interpretation (collision-free hashes, generic group, fixed samples); the hash and curve crates shared by library and reference evaluator; bounded constants as recorded in the evidence."),
        "technique": p.get("technique", "TLA+ specification checked by TLC; exported behaviours replayed into the library; recorded traces validated against the specification"),
    }

m = {
    "version": 1,
    "setup_cmd": "./check setup",
    "hooks": {
        "guard": "--cfg zkryptium_verif",
        "enable": "the harness workspace (/verif/harness/.cargo/config.toml) sets rustflags = [\"--cfg\", \"zkryptium_verif\"] and depends on /repo by path; /repo's own builds never see the flag",
        "baseline_off_cmd": "cd /repo && cargo test --workspace --no-fail-fast --offline",
        "source_commits": runner.HOOK_COMMITS,
        "add_only": True,
    },
    "engines": [
        {"name": "tlc+zkv", "path": "/verif/check", "serves_properties": sorted(runner.PROPS.keys()),
         "kind_free_text": "explicit TLA+ specification (spec/*.tla) model-checked by TLC; two-way conformance with the Rust library through the zkv harness (case replay and trace validation)"},
    ],
    "checks": [entry(pid) for pid in sorted(runner.PROPS.keys())],
    "notes": "See DESIGN.md. Known findings: /verif/known_findings.json.",
    "not_applicable": [{"property_id": p["id"], "reason": NA.get(p["id"], NOT_BUILT)} for p in ALL if p["id"] not in runner.PROPS],
}
json.dump(m, open(os.path.join(ROOT, "MANIFEST.json"), "w"), indent=1)
print("MANIFEST.json:", len(m["checks"]), "checks,", len(m["not_applicable"]), "not applicable")
