#!/usr/bin/env python3
"""Regenerate /verif/MANIFEST.json from the tables in runner.py (PROPS) and the
per-property texts below.  Properties not in PROPS are listed under not_applicable."""
import json, os, sys
sys.path.insert(0, os.path.dirname(os.path.abspath(__file__)))
import runner

ROOT = runner.ROOT
ALL = [json.loads(l) for l in open(os.path.join(ROOT, "properties.jsonl"))]

NOT_BUILT = "check not built yet (framework under construction; DESIGN.md section 9 gives the plan)"
NA = {}

def entry(pid):
    p = runner.PROPS[pid]
    return {
        "property_id": pid,
        "quick_cmd": "./check %s quick" % pid,
        "thorough_cmd": "./check %s thorough" % pid,
        "evidence_file": "/verif/evidence/%s.json" % pid,
        "replay_cmd_template": "./check %s --replay {path}" % pid,
        "engine": "tlc+zkv",
        "level_claimed": {
            "category": p.get("level", "model_checking"),
            "text": p["level_text"],
            "design_ref": p.get("design_ref", "DESIGN.md section 4, " + pid),
        },
        "level_note": p.get("level_note", "Trusted base: TLC; the toy interpretation (collision-free hashes, generic group, fixed samples); the hash and curve crates shared by library and reference evaluator; bounded constants as recorded in the evidence."),
        "technique": p.get("technique", TECHNIQUE.get(pid, "TLA+ specification checked by TLC; exported behaviours replayed into the library; recorded traces validated against the specification")),
    }

TECHNIQUE = {'C01': 'explicit TLA+ specification (Api.tla over Toy / BBS / Layouts) model-checked by TLC on the bounded slices MC_sig, MC_shape (shape and sweep families); every behaviour TLC finds is exported and replayed into the library (specification -> implementation, decisions and octets compared); randomised API traces recorded from the library are validated by TLC against Trace_Api.tla (implementation -> specification)', 'C02': 'explicit TLA+ specification (Api.tla over Toy / BBS / Layouts) model-checked by TLC on the bounded slices MC_sig, MC_shape (edits, swaps at block distances); every behaviour TLC finds is exported and replayed into the library (specification -> implementation, decisions and octets compared); randomised API traces recorded from the library are validated by TLC against Trace_Api.tla (implementation -> specification)', 'C03': 'explicit TLA+ specification (Api.tla over Toy / BBS / Layouts) model-checked by TLC on the bounded slices MC_proof (honest mode), MC_shape (shape and sweep families); every behaviour TLC finds is exported and replayed into the library (specification -> implementation, decisions and octets compared); randomised API traces recorded from the library are validated by TLC against Trace_Api.tla (implementation -> specification)', 'C04': 'explicit TLA+ specification (Api.tla over Toy / BBS / Layouts) model-checked by TLC on the bounded slices MC_proof (adversarial mode: edits, tampering, crafted proofs incl. low-order points), MC_shape (resized proofs); every behaviour TLC finds is exported and replayed into the library (specification -> implementation, decisions and octets compared); randomised API traces recorded from the library are validated by TLC against Trace_Api.tla (implementation -> specification)', 'C05': 'explicit TLA+ specification (Api.tla over Toy / BBS / Layouts) model-checked by TLC on the bounded slices MC_blind (honest mode), MC_shape (shape and sweep families); every behaviour TLC finds is exported and replayed into the library (specification -> implementation, decisions and octets compared); randomised API traces recorded from the library are validated by TLC against Trace_Api.tla (implementation -> specification)', 'C06': 'explicit TLA+ specification (Api.tla over Toy / BBS / Layouts) model-checked by TLC on the bounded slices MC_blind (adversarial mode), MC_shape (tampered commitments), MC_protocol (holders, issuer, verifier, attacker on the wire); every behaviour TLC finds is exported and replayed into the library (specification -> implementation, decisions and octets compared); randomised API traces recorded from the library are validated by TLC against Trace_Api.tla (implementation -> specification)', 'C12': 'explicit TLA+ specification (Api.tla over Toy / BBS / Layouts) model-checked by TLC on the bounded slices MC_update (update histories), MC_shape; every behaviour TLC finds is exported and replayed into the library (specification -> implementation, decisions and octets compared); randomised API traces recorded from the library are validated by TLC against Trace_Api.tla (implementation -> specification)', 'C07': 'TLA+ specification Rng.tla model-checked by TLC (freshness and consumption map; the shared-stream variant must violate Fresh); randomness traces recorded through the rng_draw hook on 1..16 threads and several processes (with a burst phase), validated by TLC against Trace_Rng.tla', 'C08': 'TLA+ specification Codec.tla (decoders as total functions, count arithmetic of the entry points) model-checked by TLC (MC_codec); every decode / count case exported and replayed into the library under catch_unwind with a generator budget; unbounded count lemmas discharged by Apalache (spec/apalache/Lemmas.tla)', 'C09': 'TLA+ specification Codec.tla model-checked by TLC (MC_codec); every (codec, length, field class) case exported and replayed: decision, re-encoding, bit flips, octets / coordinates / JSON round trips; RoundTrip events of the API traces validated by TLC', 'C10': 'translation validation against the specification: Layouts.tla (hash inputs and wire encodings) exported by TLC and interpreted by an independent reference evaluator; library octets and accept/reject decisions compared with it on the behaviours TLC exports and on the grid of MC_det (every two-thread schedule of the deterministic operations model-checked)', 'C11': 'TLA+ specification: MC_inject (injectivity of every hash-input layout) model-checked by TLC; cross-suite / cross-interface behaviours of the Api slices exported and replayed; generator sets of the MC_det grid checked for prefix consistency, duplicates, identity, P1 and disjointness', 'C13': 'explicit TLA+ specification (CL03.tla) evaluated by TLC on the bounded instances of MC_cl (C13toy: toy RSA groups, every derivation); driver logs of the real library (feature cl03), one event per observation, validated by TLC against Trace_CL.tla (implementation -> specification); derivations and the behaviours of MC_clproto (issuance / presentation state machine, invariants checked by TLC) exported and replayed on real keys (specification -> implementation)', 'C14': 'explicit TLA+ specification (CL03.tla) evaluated by TLC on the bounded instances of MC_cl (C15used); driver logs of the real library (feature cl03), one event per observation, validated by TLC against Trace_CL.tla (implementation -> specification); the behaviours of MC_clproto (C14honest, C14refuses checked by TLC) exported and replayed on real keys (specification -> implementation)', 'C15': 'explicit TLA+ specification (CL03.tla) evaluated by TLC on the bounded instances of MC_cl (C15used, missing links); driver logs of the real library (feature cl03), one event per observation, validated by TLC against Trace_CL.tla (implementation -> specification); the presentation branch of MC_clproto (C15asmade) exported and replayed on real keys', 'C16': 'explicit TLA+ specification (CL03.tla) evaluated by TLC on the bounded instances of MC_cl (C16anchored, C16tolerance); driver logs of the real library (feature cl03), one event per observation, validated by TLC against Trace_CL.tla (implementation -> specification); the tolerance arithmetic for all parameters discharged by Apalache (spec/apalache/BoudotLemmas.tla)', 'C17': 'explicit TLA+ specification (CL03.tla) evaluated by TLC on the bounded instances of MC_cl (C17noOpenings, C17split); driver logs of the real library (feature cl03), one event per observation, validated by TLC against Trace_CL.tla (implementation -> specification)', 'C18': "explicit TLA+ specification (CL03.tla) evaluated by TLC on the bounded instances of MC_cl (C18toy: every toy modulus from safe primes below the bound); driver logs of the real library (feature cl03), one event per observation, validated by TLC against Trace_CL.tla (implementation -> specification); the same facts observed on the library's key generation run with a toy ciphersuite at the model's sizes", 'C19': 'explicit TLA+ specification (CL03.tla) evaluated by TLC on the bounded instances of MC_cl (C19masks: table of blinding lengths); driver logs of the real library (feature cl03), one event per observation, validated by TLC against Trace_CL.tla (implementation -> specification); the arithmetic behind the table discharged for all values by Apalache (spec/apalache/MaskLemmas.tla)'}

m = {
    "version": 1,
    "setup_cmd": "./check setup",
    "hooks": {
        "guard": "--cfg zkryptium_verif",
        "enable": "the harness workspace (/verif/harness/.cargo/config.toml) sets rustflags = [\"--cfg\", \"zkryptium_verif\"] and depends on /repo by path; /repo's own builds never see the flag",
        "baseline_off_cmd": "cd /repo && cargo test --workspace --no-fail-fast --offline",
        "source_commits": runner.HOOK_COMMITS,
        "add_only": True,
    },
    "engines": [
        {"name": "tlc+zkv", "path": "/verif/check", "serves_properties": sorted(runner.PROPS.keys()),
         "kind_free_text": "explicit TLA+ specification (spec/*.tla) model-checked by TLC; two-way conformance with the Rust library through the zkv harness (case replay and trace validation)"},
    ],
    "checks": [entry(pid) for pid in sorted(runner.PROPS.keys())],
    "notes": "See DESIGN.md. Known findings: /verif/known_findings.json.",
    "not_applicable": [{"property_id": p["id"], "reason": NA.get(p["id"], NOT_BUILT)} for p in ALL if p["id"] not in runner.PROPS],
}
json.dump(m, open(os.path.join(ROOT, "MANIFEST.json"), "w"), indent=1)
print("MANIFEST.json:", len(m["checks"]), "checks,", len(m["not_applicable"]), "not applicable")
