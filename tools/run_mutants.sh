#!/bin/bash
# usage: run_mutants.sh <stage_dir> <out_log> <prop:variant:checks...> ...
# applies each staged patch to /repo, runs the listed checks (quick), reverts.
STAGE=$1; LOG=$2; shift 2
cd /verif
for spec in "$@"; do
  IFS=: read prop var checks <<< "$spec"
  patch=$STAGE/$prop/$var/patch.diff; [ -f $STAGE/$prop/$var/patch_ported.diff ] && patch=$STAGE/$prop/$var/patch_ported.diff
  echo "=== $prop/$var ($checks)" >> $LOG
  if ! git -C /repo apply --3way $patch >> $LOG 2>&1; then echo "APPLY-FAILED $prop/$var" >> $LOG; git -C /repo checkout -- . ; git -C /repo reset -q --hard HEAD; continue; fi
  git -C /repo reset -q   # unstage (3way stages)
  for c in ${checks//,/ }; do
    out=$(./check $c quick 2>&1 | grep -E "^(OK|VIOLATION|TOOL-ERROR)" | head -3)
    echo "  [$c] $out" >> $LOG
  done
  git -C /repo checkout -- . ; git -C /repo status --short | grep -v '^??' >> $LOG
done
echo "=== done" >> $LOG
