#!/bin/bash
# Independent confirmation of every staged seeded change in a scratch worktree of /repo:
#   demo on the clean tree -> PASS; patch applies; baseline test suite still passes (98, and the 6 CL1024
#   tests for CL03 changes); demo with the change -> FAIL.   usage: confirm_mutants.sh <stage> <log> ids...
STAGE=$1; LOG=$2; shift 2
WT=/tmp/mutconfirm
export CONFIG_SITE=/verif/tools/gmp-config.site GMP_MPFR_SYS_CACHE=/verif/build/gmp-cache CARGO_NET_OFFLINE=true
git -C /repo worktree remove --force $WT 2>/dev/null; git -C /repo worktree prune
git -C /repo worktree add --detach $WT HEAD >/dev/null 2>&1
for id in "$@"; do
  prop=${id%%/*}; var=${id##*/}; d=$STAGE/$prop/$var
  patch=$d/patch.diff; [ -f $d/patch_ported.diff ] && patch=$d/patch_ported.diff
  cl=""; case $prop in C13|C14|C15|C16|C17|C18|C19) cl="--features cl03";; esac
  cd $WT; git checkout -q -- . ; rm -f examples/mutdemo.rs
  cp $d/demo.rs examples/mutdemo.rs
  clean=$(timeout 1800 cargo run --offline $cl --example mutdemo 2>/dev/null | grep -cE "^PASS|PASS" ); cs=$?
  if ! git apply --3way $patch >/dev/null 2>&1; then echo "$id APPLY-FAILED" >> $LOG; continue; fi
  git reset -q
  rm -f examples/mutdemo.rs
  t1=$(timeout 1800 cargo test --offline 2>&1 | grep -E "^test result: ok. 98 passed" | wc -l)
  t2=1; if [ -n "$cl" ]; then t2=$(timeout 2400 cargo test --features cl03 --offline cl1024 2>&1 | grep -E "^test result: ok. 6 passed" | wc -l); fi
  cp $d/demo.rs examples/mutdemo.rs
  timeout 1800 cargo run --offline $cl --example mutdemo > /tmp/mutdemo.out 2>&1; rc=$?
  fail=$(grep -c "FAIL" /tmp/mutdemo.out)
  echo "$id clean_pass=$clean tests98=$t1 cl6=$t2 demo_rc=$rc demo_fail_lines=$fail" >> $LOG
  git checkout -q -- . ; rm -f examples/mutdemo.rs
done
cd /; git -C /repo worktree remove --force $WT; git -C /repo worktree prune
echo "done" >> $LOG
