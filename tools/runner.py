#!/usr/bin/env python3
"""Runner of the zkryptium verification framework (DESIGN section 3.7).

  ./check setup                    build everything from files on disk (offline)
  ./check <Cxx> quick|thorough     decide property Cxx; exit 0 / 1 (+ VIOLATION line) / 2 (tool error)
  ./check <Cxx> --replay <file>    re-run one recorded violation
  ./check selftest                 binding demonstrations (corrupted traces / flipped expectations are rejected)

Every check rebuilds the harness against /repo's current working tree (hooks on),
runs the TLC slices of the property, replays the exported behaviours into the real
library, records and validates implementation traces, and writes
/verif/evidence/<id>.json.
"""
import json, os, re, subprocess, sys, time, hashlib, shutil

ROOT = os.path.dirname(os.path.dirname(os.path.abspath(__file__)))
SPEC = os.path.join(ROOT, "spec")
BUILD = os.path.join(ROOT, "build")
HARNESS = os.path.join(ROOT, "harness")
EVID = os.path.join(ROOT, "evidence")
REPLAYS = os.path.join(BUILD, "replays")
ZKV = os.path.join(BUILD, "target", "release", "zkv")
ZKVCL = os.path.join(BUILD, "target", "release", "zkv-cl")
LAYOUTS = os.path.join(BUILD, "layouts.json")
TLC_WORKERS = os.environ.get("VERIF_TLC_WORKERS", "8")


class ToolError(Exception):
    pass


def sh(cmd, cwd=None, env=None, timeout=None, check=True):
    e = dict(os.environ)
    e.update({"CARGO_NET_OFFLINE": "true"})
    if env:
        e.update(env)
    try:
        p = subprocess.run(cmd, cwd=cwd, env=e, shell=isinstance(cmd, str), capture_output=True, text=True, timeout=timeout)
    except subprocess.TimeoutExpired:
        raise ToolError("timeout: %s" % (cmd,))
    if check and p.returncode != 0:
        raise ToolError("command failed (%d): %s\n%s\n%s" % (p.returncode, cmd, p.stdout[-3000:], p.stderr[-3000:]))
    return p


def cl_env():
    return {"CONFIG_SITE": os.path.join(ROOT, "tools", "gmp-config.site"),
            "GMP_MPFR_SYS_CACHE": os.path.join(BUILD, "gmp-cache")}


def build_harness(cl=False):
    os.makedirs(BUILD, exist_ok=True)
    os.makedirs(os.path.join(BUILD, "gmp-cache"), exist_ok=True)
    pkg = "zkv-cl" if cl else "zkv"
    sh(["cargo", "build", "--release", "--offline", "-p", pkg], cwd=HARNESS, env=cl_env() if cl else None, timeout=3000)


def tlc(module, cfg_text, name, workers=None, extra_env=None, timeout=3000, java_opts=None, simulate=None):
    """run TLC on spec/<module>.tla with the given cfg; returns stdout"""
    os.makedirs(os.path.join(BUILD, "tlc"), exist_ok=True)
    cfg = os.path.join(BUILD, "tlc", name + ".cfg")
    with open(cfg, "w") as f:
        f.write(cfg_text)
    meta = os.path.join(BUILD, "tlc", name + ".meta")
    shutil.rmtree(meta, ignore_errors=True)
    cmd = ["tlc", "-workers", str(workers or TLC_WORKERS), "-metadir", meta, "-cleanup", "-noGenerateSpecTE",
           "-config", cfg]
    if simulate:
        cmd += ["-simulate", simulate]
    cmd += [module + ".tla"]
    env = dict(extra_env or {})
    env["JAVA_TOOL_OPTIONS"] = java_opts or "-Xss64m"
    p = sh(cmd, cwd=SPEC, env=env, timeout=timeout, check=False)
    shutil.rmtree(meta, ignore_errors=True)
    out = p.stdout
    with open(os.path.join(BUILD, "tlc", name + ".out"), "w") as f:
        f.write(out)
    return p.returncode, out


def ensure_layouts():
    rc, out = tlc("ExportLayouts", "INIT Init\nNEXT Next\n", "layouts", workers=1, timeout=120)
    m = re.search(r'<<"LAYOUTS", "(.*)">>', out)
    if not m:
        raise ToolError("layout export failed:\n" + out[-2000:])
    s = json.loads('"' + m.group(1) + '"')
    json.loads(s)
    with open(LAYOUTS, "w") as f:
        f.write(s)


def tlc_stats(out):
    st = {"states": 0, "distinct": 0, "depth": 0}
    m = re.search(r"(\d[\d,]*) states generated, (\d[\d,]*) distinct states found", out)
    if m:
        st["states"] = int(m.group(1).replace(",", ""))
        st["distinct"] = int(m.group(2).replace(",", ""))
    m = re.search(r"depth of the complete state graph search is (\d+)", out)
    if m:
        st["depth"] = int(m.group(1))
    return st


def tlc_coverage(out):
    """per-action counts from -coverage 1: '<Action line .. of module M>: distinct:total'"""
    cov = {}
    for m in re.finditer(r"^<(\w+) line \d+, col \d+ to line \d+, col \d+ of module (\w+)>: (\d+):(\d+)", out, re.M):
        cov[m.group(1)] = {"distinct": int(m.group(3)), "total": int(m.group(4))}
    return cov


def tlc_error(out):
    if "Model checking completed. No error has been found." in out or "Finished in" in out and "Error:" not in out:
        return None
    m = re.search(r"Error: (.*)", out)
    return m.group(0) if m else "TLC did not complete"


def extract_cases(out, path):
    """one exported behaviour per line; also per-action counts (op, res) as vacuity guard"""
    n = 0
    acts = {}
    with open(path, "w") as f:
        for m in re.finditer(r'^<<"CASE", "(.*)">>$', out, re.M):
            line = json.loads('"' + m.group(1) + '"')
            f.write(line + "\n")
            n += 1
            for st in json.loads(line):
                k = "%s:%s/%s" % (st["op"], st["res"], st["prov"])
                acts[k] = acts.get(k, 0) + 1
    return n, acts


def cfg_text(consts, init="MCInit", nxt="Next", invariants=(), props=(), constraint=None, view=None):
    lines = ["CONSTANTS"]
    for k, v in consts.items():
        lines.append("  %s = %s" % (k, v))
    lines += ["INIT " + init, "NEXT " + nxt]
    if invariants:
        lines.append("INVARIANTS " + " ".join(invariants))
    if props:
        lines.append("PROPERTIES " + " ".join(props))
    if constraint:
        lines.append("CONSTRAINT " + constraint)
    if view:
        lines.append("VIEW " + view)
    lines.append("CHECK_DEADLOCK FALSE")
    return "\n".join(lines) + "\n"


# ----------------------------------------------------------------------------
# slices: TLC configurations that export cases for replay
# ----------------------------------------------------------------------------
SLICES = {
    "sig": {"module": "MC_sig", "invariants": ["C01", "C02", "Refines", "Export"],
            "consts": {"quick": {"K": 3, "Dev": "{}", "MechBound": 99, "MaxL": 2}, "thorough": {"K": 4, "Dev": "{}", "MechBound": 99, "MaxL": 3}},
            "flip": {"quick": 5, "thorough": 1}},
    "proof": {"module": "MC_proof", "invariants": ["C03", "C04", "Refines", "Export"],
              "consts": {"quick": {"K": 3, "Dev": "{}", "MechBound": 99, "MaxL": 2, "Rich": "FALSE", "Mode": '"honest"'},
                         "thorough": {"K": 4, "Dev": "{}", "MechBound": 99, "MaxL": 3, "Rich": "TRUE", "Mode": '"honest"'}},
              "flip": {"quick": 0, "thorough": 0}},
    "proof_adv": {"module": "MC_proof", "invariants": ["C03", "C04", "Refines", "Export"],
                  "consts": {"quick": {"K": 3, "Dev": "{}", "MechBound": 99, "MaxL": 2, "Rich": "FALSE", "Mode": '"adv"'},
                             "thorough": {"K": 4, "Dev": "{}", "MechBound": 99, "MaxL": 3, "Rich": "FALSE", "Mode": '"adv"'}},
                  "flip": {"quick": 41, "thorough": 3}},
    "update": {"module": "MC_update", "invariants": ["C01", "C02", "C12", "C12scn", "Refines", "Export"],
               "consts": {"quick": {"K": 3, "Dev": "{}", "MechBound": 99, "MaxL": 2, "Depth": 2, "CrossSuite": "FALSE"},
                          "thorough": {"K": 4, "Dev": "{}", "MechBound": 99, "MaxL": 2, "Depth": 3, "CrossSuite": "TRUE"}},
               "flip": {"quick": 0, "thorough": 0}},
    "blind": {"module": "MC_blind", "invariants": ["C05", "C06", "C02", "C04", "Refines", "Export"],
              "consts": {"quick": {"K": 3, "Dev": "{}", "MechBound": 99, "MaxL": 1, "MaxM": 1, "Mode": '"honest"'},
                         "thorough": {"K": 4, "Dev": "{}", "MechBound": 99, "MaxL": 2, "MaxM": 2, "Mode": '"honest"'}},
              "flip": {"quick": 0, "thorough": 0}},
    "blind_adv": {"module": "MC_blind", "invariants": ["C05", "C06", "C02", "C04", "Refines", "Export"],
                  "consts": {"quick": {"K": 3, "Dev": "{}", "MechBound": 99, "MaxL": 1, "MaxM": 1, "Mode": '"adv"'},
                             "thorough": {"K": 4, "Dev": "{}", "MechBound": 99, "MaxL": 2, "MaxM": 2, "Mode": '"adv"'}},
                  "flip": {"quick": 41, "thorough": 3}},
    "shape_sig": {"module": "MC_shape", "invariants": ["C01", "C02", "C12", "Refines", "Export"],
                  "consts": {"quick": {"K": 2, "Dev": "{}", "MechBound": 4, "Ls": "{0, 1, 2, 31, 32, 33, 128, 129, 257}", "Ms": "{}", "Fam": '"sig"'},
                             "thorough": {"K": 2, "Dev": "{}", "MechBound": 4, "Ls": "{0, 1, 2, 3, 31, 32, 33, 64, 127, 128, 129, 255, 256, 257, 1000, 2000}", "Ms": "{}", "Fam": '"sig"'}},
                  "flip": {"quick": 0, "thorough": 0}, "chunks": "7"},
    "shape_proof": {"module": "MC_shape", "invariants": ["C03", "C04", "Refines", "Export"],
                    "consts": {"quick": {"K": 2, "Dev": "{}", "MechBound": 4, "Ls": "{0, 1, 2, 32, 33, 129, 257}", "Ms": "{}", "Fam": '"proof"'},
                               "thorough": {"K": 2, "Dev": "{}", "MechBound": 4, "Ls": "{0, 1, 2, 3, 31, 32, 33, 64, 127, 128, 129, 255, 256, 257, 1000}", "Ms": "{}", "Fam": '"proof"'}},
                    "flip": {"quick": 0, "thorough": 0}, "chunks": "7"},
    "shape_blind": {"module": "MC_shape", "invariants": ["C05", "C06", "Refines", "Export"],
                    "consts": {"quick": {"K": 2, "Dev": "{}", "MechBound": 4, "Ls": "{0, 1, 33}", "Ms": "{0, 1, 33}", "Fam": '"blind"'},
                               "thorough": {"K": 2, "Dev": "{}", "MechBound": 4, "Ls": "{0, 1, 2, 32, 33, 129, 257}", "Ms": "{0, 1, 2, 16, 33, 129}", "Fam": '"blind"'}},
                    "flip": {"quick": 0, "thorough": 0}, "chunks": "7"},
}

HOOK_COMMITS = ["5b39d5a"]

# implementation -> specification: trace families (driver of record.rs) and sizes per tier
TRACES = {
    "sig":   {"quick": (3, 300, 300), "thorough": (24, 400, 2000)},
    "proof": {"quick": (3, 300, 300), "thorough": (24, 400, 1000)},
    "blind": {"quick": (3, 300, 64), "thorough": (24, 400, 300)},
    "all":   {"quick": (3, 300, 300), "thorough": (24, 400, 2000)},
}

MC_TEXT = "TLC checks the invariant(s) exhaustively on the bounded slice(s) listed in the evidence (constants recorded there), in the toy interpretation of the mechanical transcription of the operations (Mech) against the provenance-level statement of the property (Prov); every behaviour of the slice is exported and replayed into the real library under several concretisations of its abstract octets, where decisions, lengths and (for deterministic operations) octets must agree with the specification; "

PROPS = {
    "C01": {"slices": ["sig", "shape_sig"], "traces": "sig", "tally": ["C01"], "title": "BBS signature completeness",
            "level_text": MC_TEXT + "slice `sig`: 2 suites, headers absent/empty/non-empty, every message vector over 3 atoms (one the empty message) up to MaxL, absent-vs-empty presentations, encode/decode round trip."},
    "C02": {"slices": ["sig", "shape_sig"], "traces": "sig", "tally": ["C02"], "title": "BBS signature binding",
            "level_text": MC_TEXT + "slice `sig`: every single edit of the message vector (change, insert, delete, swap), every other header, the other key, the other suite, the blind interface, and tampered encodings - replayed with single-bit flips of the affected fields of the 80 octets (all 640 bits in the thorough tier)."},
    "C03": {"slices": ["proof", "shape_proof"], "traces": "proof", "tally": ["C03"], "title": "BBS proof completeness",
            "level_text": MC_TEXT + "slice `proof`: every message vector up to MaxL, EVERY disclosure subset (also as unsorted / duplicated / absent index lists), header and presentation header absent/empty/non-empty, round trip; the proof length 272 + 32 U is checked on the real proofs, which are produced with production randomness and recomputed from the recorded draws."},
    "C04": {"slices": ["proof_adv", "shape_proof"], "traces": "proof", "tally": ["C04"], "title": "BBS proof soundness",
            "level_text": MC_TEXT + "slice `proof_adv`: every single edit of the verifier's statement (message, index, pair added/removed, lists of different lengths, duplicate index with forged message, header, presentation header, key, suite, interface), every tampered field and +-1 scalar of the encoding (with bit flips), and the attacker's family of proofs assembled from public data (identity / multiples of the verifier's Bv / unrelated points, responses solved) through from_bytes and through serde."},
    "C05": {"slices": ["blind", "shape_blind"], "traces": "blind", "tally": ["C05"], "title": "Blind BBS completeness",
            "level_text": MC_TEXT + "slice `blind`: (L, M) up to the bounds, with and without commitment (and commitment to zero messages), ALL pairs of disclosure choices, absent/empty presentations, round trips; blind signature octets equal the specification's."},
    "C06": {"slices": ["blind_adv", "shape_blind"], "traces": "blind", "tally": ["C06"], "title": "Blind BBS soundness",
            "level_text": MC_TEXT + "slice `blind_adv`: tampered / truncated / extended / cross-suite commitments shown to the signer (with bit flips of the commitment octets), every single edit of the inputs of verify_blind_sign and blind_proof_verify including L +- 1, aliasing of committed and signer messages, duplicate indexes with forged messages, plain-interface verification."},
    "C12": {"slices": ["update", "shape_sig"], "traces": "sig", "tally": ["C12", "C02", "C01"], "title": "Signature update over any history",
            "level_text": MC_TEXT + "slice `update`: every history of up to Depth updates at every position with every new value, with correct and wrong old values, out-of-range positions, then verification against the intended current vector and every earlier vector; updated signature octets equal the reference's B(msgs)/(sk+e)."},
}

def seed():
    try:
        return int(os.environ.get("VERIF_SEED", "1"))
    except ValueError:
        return 1


def run_slice(name, tier, prop):
    sl = SLICES[name]
    rc, out = tlc(sl["module"], cfg_text(sl["consts"][tier], invariants=sl["invariants"]), "%s_%s_%s" % (prop, name, tier))
    err = tlc_error(out)
    res = {"slice": name, "constants": sl["consts"][tier], "stats": tlc_stats(out), "tlc_error": None, "violated_invariant": None}
    if err:
        m = re.search(r"Invariant (\w+) is violated", out)
        if m:
            res["violated_invariant"] = m.group(1)
            res["tlc_error"] = err
            return res, None
        raise ToolError("TLC failed on slice %s: %s\n%s" % (name, err, out[-3000:]))
    cases = os.path.join(BUILD, "cases_%s_%s_%s.ndjson" % (prop, name, tier))
    res["cases"], res["actions"] = extract_cases(out, cases)
    if res["cases"] == 0:
        raise ToolError("slice %s exported no case (vacuous)" % name)
    return res, cases


def replay(cases, tier, prop, name, flip):
    rep = os.path.join(BUILD, "rep_%s_%s_%s.json" % (prop, name, tier))
    chunks = SLICES[name].get("chunks") or ("1,32,255,256" if tier == "quick" else "1,31,32,33,255,256,257,1024")
    sh([ZKV, "replay", cases, rep, "--flip-stride", str(flip), "--threads", "16", "--chunks", chunks],
       env={"ZKV_LAYOUTS": LAYOUTS, "VERIF_SEED": str(seed())}, timeout=6000)
    return json.load(open(rep))


TRACE_CFG = """CONSTANTS
  K = 2
  Dev = {}
  MechBound = 6
INIT TraceInit
NEXT TraceNext
INVARIANTS C01 C02 C03 C04 C05 C06 C12 Refines
POSTCONDITION TraceAccepted
CHECK_DEADLOCK FALSE
"""

# the property a rejected event belongs to: what the library answered decides the direction
def trace_prop(ev):
    op, res = ev.get("op"), ev.get("res")
    if res == "Panic":
        return "C08"
    compl = {"Sign": "C01", "Verify": "C01", "RoundTrip": "C09", "Update": "C12", "ProofGen": "C03", "ProofVerify": "C03",
             "Commit": "C05", "BlindSign": "C05", "VerifyBlind": "C05", "BlindProofGen": "C05", "BlindProofVerify": "C05", "KeyGen": "C01", "Tamper": "C01"}
    sound = {"Verify": "C02", "ProofVerify": "C04", "BlindSign": "C06", "VerifyBlind": "C06", "BlindProofVerify": "C06", "Update": "C12",
             "Sign": "C01", "ProofGen": "C03", "Commit": "C05", "BlindProofGen": "C05"}
    # the library said Ok where the specification did not -> soundness; otherwise completeness
    return sound.get(op, "C10") if res == "Ok" else compl.get(op, "C10")


def validate_trace(path, name):
    """TLC validates one recorded trace file against Trace_Api; returns (accepted, events, matched, first_unmatched, error)"""
    rc, out = tlc("Trace_Api", TRACE_CFG, name, workers=1, extra_env={"TRACE": path},
                  java_opts="-Xss512m -Dtlc2.tool.queue.IStateQueue=StateDeque", timeout=3000)
    events = sum(1 for _ in open(path))
    m = re.search(r'<<"TRACE-REJECTED", "events", (\d+), "matched", (\d+), "first unmatched", "(.*)">>', out)
    if m:
        ev = json.loads(json.loads('"' + m.group(3) + '"'))
        return False, events, int(m.group(2)), ev, None
    if "Model checking completed. No error has been found." in out:
        return True, events, events, None, None
    inv = re.search(r"Invariant (\w+) is violated", out)
    if inv:
        return False, events, 0, None, "specification-level: invariant %s violated while validating a trace" % inv.group(1)
    return False, events, 0, None, "TLC failed on trace: " + out[-1500:]


def run_traces(family, tier, prop):
    runs, events, maxl = TRACES[family][tier]
    res = {"family": family, "files": 0, "events": 0, "accepted": 0, "rejections": []}
    per_file = 6 if tier == "thorough" else 3
    nfiles = (runs + per_file - 1) // per_file
    for k in range(nfiles):
        path = os.path.join(BUILD, "trace_%s_%s_%d.ndjson" % (prop, tier, k))
        sh([ZKV, "record", path, "--runs", str(min(per_file, runs - k * per_file)), "--events", str(events), "--max-l", str(maxl),
            "--salt", str(k), "--family", family], env={"ZKV_LAYOUTS": LAYOUTS, "VERIF_SEED": str(seed())}, timeout=3000)
        ok, n, matched, ev, err = validate_trace(path, "trace_%s_%s_%d" % (prop, tier, k))
        res["files"] += 1
        res["events"] += n
        if err:
            raise ToolError(err)
        if ok:
            res["accepted"] += min(per_file, runs - k * per_file)      # every Reset-delimited run is one trace
        else:
            res["rejections"].append({"file": path, "matched": matched, "event": ev, "property": trace_prop(ev)})
        if k == 0:
            with open(path) as f:
                res["sample"] = [json.loads(next(f)) for _ in range(6)]
    return res


def write_replay_file(prop, mm):
    os.makedirs(REPLAYS, exist_ok=True)
    h = hashlib.sha256(json.dumps(mm, sort_keys=True).encode()).hexdigest()[:12]
    path = os.path.join(REPLAYS, "%s_%s.json" % (prop, h))
    with open(path, "w") as f:
        json.dump(mm, f, indent=1)
    return path


def check_fixtures():
    p = sh([ZKV, "fixtures"], env={"ZKV_LAYOUTS": LAYOUTS}, check=False)
    if p.returncode != 0:
        raise ToolError("the reference evaluator does not reproduce the fixtures:\n" + p.stdout[-2000:])
    return json.loads(p.stdout.splitlines()[0])


def run_property(prop, tier):
    t0 = time.time()
    spec = PROPS[prop]
    build_harness()
    ensure_layouts()
    fx = check_fixtures()
    violations = []
    slices_ev = []
    tot_states = tot_trans = 0
    evaluations = 0
    distinct = 0
    samples = []
    drift = []
    for name in spec["slices"]:
        res, cases = run_slice(name, tier, prop)
        slices_ev.append(res)
        tot_states += res["stats"]["distinct"]
        tot_trans += res["stats"]["states"]
        if res["violated_invariant"]:
            violations.append({"property": prop, "what": "TLC: invariant %s violated in slice %s (specification level)" % (res["violated_invariant"], name)})
            continue
        rep = replay(cases, tier, prop, name, SLICES[name]["flip"][tier])
        res["replay"] = {k: rep[k] for k in ("cases", "concrete_runs", "steps", "flips", "checks")}
        evaluations += sum(rep["checks"].get(t, 0) for t in spec["tally"])
        distinct += rep["cases"]
        samples += rep["samples"][:2]
        drift += rep["drift"][:20]
        for mm in rep["mismatches"]:
            if mm["property"] in spec["tally"]:
                violations.append(mm)
    traces = None
    if spec.get("traces"):
        traces = run_traces(spec["traces"], tier, prop)
        for rj in traces["rejections"]:
            violations.append({"property": prop, "what": "recorded trace rejected by the specification at event %d (%s): the library answered %s" % (
                rj["matched"] + 1, rj["event"].get("op"), rj["event"].get("res")), "expected": "the specification's decision", "observed": rj["event"].get("res"),
                "trace": rj["file"], "event": rj["event"], "attributed_to": rj["property"]})
        if traces.get("sample"):
            samples.append({"trace_prefix": traces["sample"]})
    ev = {
        "property_id": prop, "tier": tier, "seed": seed(), "level": "model_checking",
        "coverage": {
            "states": tot_states, "transitions": tot_trans,
            "traces_validated_against_impl": (traces or {}).get("accepted", 0),
            "trace_events_validated": (traces or {}).get("events", 0),
            "traces": {k: v for k, v in (traces or {}).items() if k != "sample"},
            "cases_replayed_into_impl": distinct,
            "evaluations": evaluations, "distinct_nontrivial": distinct,
            "rule": "every behaviour of the bounded TLC slice(s) is one case; each is executed against the real library under one or more concretisations of its abstract octets; a case is distinct by its action sequence and arguments, non-trivial because it contains at least one producing and one deciding call",
            "samples": samples[:4], "slices": slices_ev, "fixtures_reproduced": fx, "drift": drift,
            "exhaustive": True,
        },
        "assumptions": [
            "toy interpretation: collision-free hashes, generic group, K fixed samples (DESIGN 3.2)",
            "bounded model: constants listed per slice",
            "hash / curve primitive crates are shared between library and reference evaluator",
        ],
        "wall_s": round(time.time() - t0, 1), "violations": len(violations),
    }
    os.makedirs(EVID, exist_ok=True)
    with open(os.path.join(EVID, prop + ".json"), "w") as f:
        json.dump(ev, f, indent=1)
    if violations:
        seen = set()
        for v in violations[:10]:
            path = write_replay_file(prop, v)
            if path in seen:
                continue
            seen.add(path)
            print("VIOLATION property=%s replay=%s" % (prop, path))
            print("  " + (v.get("what") or "") + " expected=" + str(v.get("expected"))[:80] + " observed=" + str(v.get("observed"))[:80])
        return 1
    print("OK property=%s tier=%s states=%d cases=%d checks=%d wall=%.0fs" % (prop, tier, tot_states, distinct, evaluations, time.time() - t0))
    return 0


def setup():
    build_harness()
    ensure_layouts()
    fx = check_fixtures()
    print("setup ok: fixtures reproduced", fx)
    return 0


def main(argv):
    try:
        if not argv:
            print(__doc__)
            return 2
        if argv[0] == "setup":
            return setup()
        prop = argv[0]
        if prop not in PROPS:
            print("unknown property", prop)
            return 2
        tier = argv[1] if len(argv) > 1 else os.environ.get("VERIF_TIER", "quick")
        if tier not in ("quick", "thorough"):
            tier = "quick"
        return run_property(prop, tier)
    except ToolError as e:
        print("TOOL-ERROR:", e)
        return 2
