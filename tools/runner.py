#!/usr/bin/env python3
"""Runner of the zkryptium verification framework (DESIGN section 3.7).

  ./check setup                    build everything from files on disk (offline)
  ./check <Cxx> quick|thorough     decide property Cxx; exit 0 / 1 (+ VIOLATION line) / 2 (tool error)
  ./check <Cxx> --replay <file>    re-run one recorded violation
  ./check selftest                 binding demonstrations (corrupted traces / flipped expectations are rejected)

Every check rebuilds the harness against /repo's current working tree (hooks on),
runs the TLC slices of the property, replays the exported behaviours into the real
library, records and validates implementation traces, and writes
/verif/evidence/<id>.json.
"""
import json, os, re, subprocess, sys, time, hashlib, shutil

ROOT = os.path.dirname(os.path.dirname(os.path.abspath(__file__)))
SPEC = os.path.join(ROOT, "spec")
BUILD = os.path.join(ROOT, "build")
HARNESS = os.path.join(ROOT, "harness")
EVID = os.path.join(ROOT, "evidence")
REPLAYS = os.path.join(BUILD, "replays")
ZKV = os.path.join(BUILD, "target", "release", "zkv")
ZKVCL = os.path.join(BUILD, "target", "release", "zkv-cl")
LAYOUTS = os.path.join(BUILD, "layouts.json")
TLC_WORKERS = os.environ.get("VERIF_TLC_WORKERS", "8")


class ToolError(Exception):
    pass


def sh(cmd, cwd=None, env=None, timeout=None, check=True):
    e = dict(os.environ)
    e.update({"CARGO_NET_OFFLINE": "true"})
    if env:
        e.update(env)
    try:
        p = subprocess.run(cmd, cwd=cwd, env=e, shell=isinstance(cmd, str), capture_output=True, text=True, timeout=timeout)
    except subprocess.TimeoutExpired:
        raise ToolError("timeout: %s" % (cmd,))
    if check and p.returncode != 0:
        raise ToolError("command failed (%d): %s\n%s\n%s" % (p.returncode, cmd, p.stdout[-3000:], p.stderr[-3000:]))
    return p


def cl_env():
    return {"CONFIG_SITE": os.path.join(ROOT, "tools", "gmp-config.site"),
            "GMP_MPFR_SYS_CACHE": os.path.join(BUILD, "gmp-cache")}


def build_harness(cl=False):
    os.makedirs(BUILD, exist_ok=True)
    os.makedirs(os.path.join(BUILD, "gmp-cache"), exist_ok=True)
    pkg = "zkv-cl" if cl else "zkv"
    sh(["cargo", "build", "--release", "--offline", "-p", pkg], cwd=HARNESS, env=cl_env() if cl else None, timeout=3000)


def tlc(module, cfg_text, name, workers=None, extra_env=None, timeout=3000, java_opts=None, simulate=None):
    """run TLC on spec/<module>.tla with the given cfg; returns stdout"""
    os.makedirs(os.path.join(BUILD, "tlc"), exist_ok=True)
    cfg = os.path.join(BUILD, "tlc", name + ".cfg")
    with open(cfg, "w") as f:
        f.write(cfg_text)
    meta = os.path.join(BUILD, "tlc", name + ".meta")
    shutil.rmtree(meta, ignore_errors=True)
    cmd = ["tlc", "-workers", str(workers or TLC_WORKERS), "-metadir", meta, "-cleanup", "-noGenerateSpecTE",
           "-config", cfg]
    if simulate:
        cmd += ["-simulate", simulate]
    cmd += [module + ".tla"]
    env = dict(extra_env or {})
    env["JAVA_TOOL_OPTIONS"] = java_opts or "-Xss64m"
    p = sh(cmd, cwd=SPEC, env=env, timeout=timeout, check=False)
    shutil.rmtree(meta, ignore_errors=True)
    out = p.stdout
    with open(os.path.join(BUILD, "tlc", name + ".out"), "w") as f:
        f.write(out)
    return p.returncode, out


def ensure_layouts():
    rc, out = tlc("ExportLayouts", "INIT Init\nNEXT Next\n", "layouts", workers=1, timeout=120)
    m = re.search(r'<<"LAYOUTS", "(.*)">>', out)
    if not m:
        raise ToolError("layout export failed:\n" + out[-2000:])
    s = json.loads('"' + m.group(1) + '"')
    json.loads(s)
    with open(LAYOUTS, "w") as f:
        f.write(s)


def tlc_stats(out):
    st = {"states": 0, "distinct": 0, "depth": 0}
    m = re.search(r"(\d[\d,]*) states generated, (\d[\d,]*) distinct states found", out)
    if m:
        st["states"] = int(m.group(1).replace(",", ""))
        st["distinct"] = int(m.group(2).replace(",", ""))
    m = re.search(r"depth of the complete state graph search is (\d+)", out)
    if m:
        st["depth"] = int(m.group(1))
    return st


def tlc_coverage(out):
    """per-action counts from -coverage 1: '<Action line .. of module M>: distinct:total'"""
    cov = {}
    for m in re.finditer(r"^<(\w+) line \d+, col \d+ to line \d+, col \d+ of module (\w+)>: (\d+):(\d+)", out, re.M):
        cov[m.group(1)] = {"distinct": int(m.group(3)), "total": int(m.group(4))}
    return cov


def tlc_error(out):
    if "Model checking completed. No error has been found." in out or "Finished in" in out and "Error:" not in out:
        return None
    m = re.search(r"Error: (.*)", out)
    return m.group(0) if m else "TLC did not complete"


def extract_cases(out, path):
    """one exported behaviour per line; also per-action counts (op, res) as vacuity guard"""
    n = 0
    acts = {}
    with open(path, "w") as f:
        for m in re.finditer(r'^<<"CASE", "(.*)">>$', out, re.M):
            line = json.loads('"' + m.group(1) + '"')
            f.write(line + "\n")
            n += 1
            for st in json.loads(line):
                k = "%s:%s/%s" % (st["op"], st["res"], st["prov"])
                acts[k] = acts.get(k, 0) + 1
    return n, acts


def cfg_text(consts, init="MCInit", nxt="Next", invariants=(), props=(), constraint=None, view=None):
    lines = ["CONSTANTS"]
    for k, v in consts.items():
        lines.append("  %s = %s" % (k, v))
    lines += ["INIT " + init, "NEXT " + nxt]
    if invariants:
        lines.append("INVARIANTS " + " ".join(invariants))
    if props:
        lines.append("PROPERTIES " + " ".join(props))
    if constraint:
        lines.append("CONSTRAINT " + constraint)
    if view:
        lines.append("VIEW " + view)
    lines.append("CHECK_DEADLOCK FALSE")
    return "\n".join(lines) + "\n"


# ----------------------------------------------------------------------------
# slices: TLC configurations that export cases for replay
# ----------------------------------------------------------------------------
SLICES = {
    "sig": {"module": "MC_sig", "invariants": ["C01", "C02", "Refines", "Export"],
            "consts": {"quick": {"K": 3, "Dev": "{}", "MaxL": 2}, "thorough": {"K": 4, "Dev": "{}", "MaxL": 3}},
            "flip": {"quick": 5, "thorough": 1}},
    "proof": {"module": "MC_proof", "invariants": ["C03", "C04", "Refines", "Export"],
              "consts": {"quick": {"K": 3, "Dev": "{}", "MaxL": 2, "Rich": "FALSE", "Mode": '"honest"'},
                         "thorough": {"K": 4, "Dev": "{}", "MaxL": 3, "Rich": "TRUE", "Mode": '"honest"'}},
              "flip": {"quick": 0, "thorough": 0}},
    "proof_adv": {"module": "MC_proof", "invariants": ["C03", "C04", "Refines", "Export"],
                  "consts": {"quick": {"K": 3, "Dev": "{}", "MaxL": 2, "Rich": "FALSE", "Mode": '"adv"'},
                             "thorough": {"K": 4, "Dev": "{}", "MaxL": 3, "Rich": "FALSE", "Mode": '"adv"'}},
                  "flip": {"quick": 41, "thorough": 3}},
    "update": {"module": "MC_update", "invariants": ["C01", "C02", "C12", "C12scn", "Refines", "Export"],
               "consts": {"quick": {"K": 3, "Dev": "{}", "MaxL": 2, "Depth": 2, "CrossSuite": "FALSE"},
                          "thorough": {"K": 4, "Dev": "{}", "MaxL": 2, "Depth": 3, "CrossSuite": "TRUE"}},
               "flip": {"quick": 0, "thorough": 0}},
    "blind": {"module": "MC_blind", "invariants": ["C05", "C06", "C02", "C04", "Refines", "Export"],
              "consts": {"quick": {"K": 3, "Dev": "{}", "MaxL": 1, "MaxM": 1, "Mode": '"honest"'},
                         "thorough": {"K": 4, "Dev": "{}", "MaxL": 2, "MaxM": 2, "Mode": '"honest"'}},
              "flip": {"quick": 0, "thorough": 0}},
    "blind_adv": {"module": "MC_blind", "invariants": ["C05", "C06", "C02", "C04", "Refines", "Export"],
                  "consts": {"quick": {"K": 3, "Dev": "{}", "MaxL": 1, "MaxM": 1, "Mode": '"adv"'},
                             "thorough": {"K": 4, "Dev": "{}", "MaxL": 2, "MaxM": 2, "Mode": '"adv"'}},
                  "flip": {"quick": 41, "thorough": 3}},
}

HOOK_COMMITS = ["5b39d5a"]

MC_TEXT = "TLC checks the invariant(s) exhaustively on the bounded slice(s) listed in the evidence (constants recorded there), in the toy interpretation of the mechanical transcription of the operations (Mech) against the provenance-level statement of the property (Prov); every behaviour of the slice is exported and replayed into the real library under several concretisations of its abstract octets, where decisions, lengths and (for deterministic operations) octets must agree with the specification; "

PROPS = {
    "C01": {"slices": ["sig"], "tally": ["C01"], "title": "BBS signature completeness",
            "level_text": MC_TEXT + "slice `sig`: 2 suites, headers absent/empty/non-empty, every message vector over 3 atoms (one the empty message) up to MaxL, absent-vs-empty presentations, encode/decode round trip."},
    "C02": {"slices": ["sig"], "tally": ["C02"], "title": "BBS signature binding",
            "level_text": MC_TEXT + "slice `sig`: every single edit of the message vector (change, insert, delete, swap), every other header, the other key, the other suite, the blind interface, and tampered encodings - replayed with single-bit flips of the affected fields of the 80 octets (all 640 bits in the thorough tier)."},
    "C03": {"slices": ["proof"], "tally": ["C03"], "title": "BBS proof completeness",
            "level_text": MC_TEXT + "slice `proof`: every message vector up to MaxL, EVERY disclosure subset (also as unsorted / duplicated / absent index lists), header and presentation header absent/empty/non-empty, round trip; the proof length 272 + 32 U is checked on the real proofs, which are produced with production randomness and recomputed from the recorded draws."},
    "C04": {"slices": ["proof_adv"], "tally": ["C04"], "title": "BBS proof soundness",
            "level_text": MC_TEXT + "slice `proof_adv`: every single edit of the verifier's statement (message, index, pair added/removed, lists of different lengths, duplicate index with forged message, header, presentation header, key, suite, interface), every tampered field and +-1 scalar of the encoding (with bit flips), and the attacker's family of proofs assembled from public data (identity / multiples of the verifier's Bv / unrelated points, responses solved) through from_bytes and through serde."},
    "C05": {"slices": ["blind"], "tally": ["C05"], "title": "Blind BBS completeness",
            "level_text": MC_TEXT + "slice `blind`: (L, M) up to the bounds, with and without commitment (and commitment to zero messages), ALL pairs of disclosure choices, absent/empty presentations, round trips; blind signature octets equal the specification's."},
    "C06": {"slices": ["blind_adv"], "tally": ["C06"], "title": "Blind BBS soundness",
            "level_text": MC_TEXT + "slice `blind_adv`: tampered / truncated / extended / cross-suite commitments shown to the signer (with bit flips of the commitment octets), every single edit of the inputs of verify_blind_sign and blind_proof_verify including L +- 1, aliasing of committed and signer messages, duplicate indexes with forged messages, plain-interface verification."},
    "C12": {"slices": ["update"], "tally": ["C12", "C02", "C01"], "title": "Signature update over any history",
            "level_text": MC_TEXT + "slice `update`: every history of up to Depth updates at every position with every new value, with correct and wrong old values, out-of-range positions, then verification against the intended current vector and every earlier vector; updated signature octets equal the reference's B(msgs)/(sk+e)."},
}

def seed():
    try:
        return int(os.environ.get("VERIF_SEED", "1"))
    except ValueError:
        return 1


def run_slice(name, tier, prop):
    sl = SLICES[name]
    rc, out = tlc(sl["module"], cfg_text(sl["consts"][tier], invariants=sl["invariants"]), "%s_%s_%s" % (prop, name, tier))
    err = tlc_error(out)
    res = {"slice": name, "constants": sl["consts"][tier], "stats": tlc_stats(out), "tlc_error": None, "violated_invariant": None}
    if err:
        m = re.search(r"Invariant (\w+) is violated", out)
        if m:
            res["violated_invariant"] = m.group(1)
            res["tlc_error"] = err
            return res, None
        raise ToolError("TLC failed on slice %s: %s\n%s" % (name, err, out[-3000:]))
    cases = os.path.join(BUILD, "cases_%s_%s_%s.ndjson" % (prop, name, tier))
    res["cases"], res["actions"] = extract_cases(out, cases)
    if res["cases"] == 0:
        raise ToolError("slice %s exported no case (vacuous)" % name)
    return res, cases


def replay(cases, tier, prop, name, flip):
    rep = os.path.join(BUILD, "rep_%s_%s_%s.json" % (prop, name, tier))
    chunks = "1,32,255,256" if tier == "quick" else "1,31,32,33,255,256,257,1024"
    sh([ZKV, "replay", cases, rep, "--flip-stride", str(flip), "--threads", "16", "--chunks", chunks],
       env={"ZKV_LAYOUTS": LAYOUTS, "VERIF_SEED": str(seed())}, timeout=6000)
    return json.load(open(rep))


def write_replay_file(prop, mm):
    os.makedirs(REPLAYS, exist_ok=True)
    h = hashlib.sha256(json.dumps(mm, sort_keys=True).encode()).hexdigest()[:12]
    path = os.path.join(REPLAYS, "%s_%s.json" % (prop, h))
    with open(path, "w") as f:
        json.dump(mm, f, indent=1)
    return path


def check_fixtures():
    p = sh([ZKV, "fixtures"], env={"ZKV_LAYOUTS": LAYOUTS}, check=False)
    if p.returncode != 0:
        raise ToolError("the reference evaluator does not reproduce the fixtures:\n" + p.stdout[-2000:])
    return json.loads(p.stdout.splitlines()[0])


def run_property(prop, tier):
    t0 = time.time()
    spec = PROPS[prop]
    build_harness()
    ensure_layouts()
    fx = check_fixtures()
    violations = []
    slices_ev = []
    tot_states = tot_trans = 0
    evaluations = 0
    distinct = 0
    samples = []
    drift = []
    for name in spec["slices"]:
        res, cases = run_slice(name, tier, prop)
        slices_ev.append(res)
        tot_states += res["stats"]["distinct"]
        tot_trans += res["stats"]["states"]
        if res["violated_invariant"]:
            violations.append({"property": prop, "what": "TLC: invariant %s violated in slice %s (specification level)" % (res["violated_invariant"], name)})
            continue
        rep = replay(cases, tier, prop, name, SLICES[name]["flip"][tier])
        res["replay"] = {k: rep[k] for k in ("cases", "concrete_runs", "steps", "flips", "checks")}
        evaluations += sum(rep["checks"].get(t, 0) for t in spec["tally"])
        distinct += rep["cases"]
        samples += rep["samples"][:2]
        drift += rep["drift"][:20]
        for mm in rep["mismatches"]:
            if mm["property"] in spec["tally"]:
                violations.append(mm)
    ev = {
        "property_id": prop, "tier": tier, "seed": seed(), "level": "model_checking",
        "coverage": {
            "states": tot_states, "transitions": tot_trans,
            "traces_validated_against_impl": 0,
            "cases_replayed_into_impl": distinct,
            "evaluations": evaluations, "distinct_nontrivial": distinct,
            "rule": "every behaviour of the bounded TLC slice(s) is one case; each is executed against the real library under one or more concretisations of its abstract octets; a case is distinct by its action sequence and arguments, non-trivial because it contains at least one producing and one deciding call",
            "samples": samples[:3], "slices": slices_ev, "fixtures_reproduced": fx, "drift": drift,
            "exhaustive": True,
        },
        "assumptions": [
            "toy interpretation: collision-free hashes, generic group, K fixed samples (DESIGN 3.2)",
            "bounded model: constants listed per slice",
            "hash / curve primitive crates are shared between library and reference evaluator",
        ],
        "wall_s": round(time.time() - t0, 1), "violations": len(violations),
    }
    os.makedirs(EVID, exist_ok=True)
    with open(os.path.join(EVID, prop + ".json"), "w") as f:
        json.dump(ev, f, indent=1)
    if violations:
        seen = set()
        for v in violations[:10]:
            path = write_replay_file(prop, v)
            if path in seen:
                continue
            seen.add(path)
            print("VIOLATION property=%s replay=%s" % (prop, path))
            print("  " + (v.get("what") or "") + " expected=" + str(v.get("expected"))[:80] + " observed=" + str(v.get("observed"))[:80])
        return 1
    print("OK property=%s tier=%s states=%d cases=%d checks=%d wall=%.0fs" % (prop, tier, tot_states, distinct, evaluations, time.time() - t0))
    return 0


def setup():
    build_harness()
    ensure_layouts()
    fx = check_fixtures()
    print("setup ok: fixtures reproduced", fx)
    return 0


def main(argv):
    try:
        if not argv:
            print(__doc__)
            return 2
        if argv[0] == "setup":
            return setup()
        prop = argv[0]
        if prop not in PROPS:
            print("unknown property", prop)
            return 2
        tier = argv[1] if len(argv) > 1 else os.environ.get("VERIF_TIER", "quick")
        if tier not in ("quick", "thorough"):
            tier = "quick"
        return run_property(prop, tier)
    except ToolError as e:
        print("TOOL-ERROR:", e)
        return 2
