#!/usr/bin/env python3
"""Runner of the zkryptium verification framework (DESIGN section 3.7).

  ./check setup                    build everything from files on disk (offline)
  ./check <Cxx> quick|thorough     decide property Cxx; exit 0 / 1 (+ VIOLATION line) / 2 (tool error)
  ./check <Cxx> --replay <file>    re-run one recorded violation
  ./check selftest                 binding demonstrations (corrupted traces / flipped expectations are rejected)

Every check rebuilds the harness against /repo's current working tree (hooks on),
runs the TLC slices of the property, replays the exported behaviours into the real
library, records and validates implementation traces, and writes
/verif/evidence/<id>.json.
"""
import json, os, re, subprocess, sys, time, hashlib, shutil

ROOT = os.path.dirname(os.path.dirname(os.path.abspath(__file__)))
SPEC = os.path.join(ROOT, "spec")
BUILD = os.path.join(ROOT, "build")
HARNESS = os.path.join(ROOT, "harness")
EVID = os.path.join(ROOT, "evidence")
REPLAYS = os.path.join(BUILD, "replays")
ZKV = os.path.join(BUILD, "target", "release", "zkv")
ZKVCL = os.path.join(BUILD, "target", "release", "zkv-cl")
LAYOUTS = os.path.join(BUILD, "layouts.json")
TLC_WORKERS = os.environ.get("VERIF_TLC_WORKERS", "8")


class ToolError(Exception):
    pass


def sh(cmd, cwd=None, env=None, timeout=None, check=True):
    e = dict(os.environ)
    e.update({"CARGO_NET_OFFLINE": "true"})
    if env:
        e.update(env)
    try:
        p = subprocess.run(cmd, cwd=cwd, env=e, shell=isinstance(cmd, str), capture_output=True, text=True, timeout=timeout)
    except subprocess.TimeoutExpired:
        raise ToolError("timeout: %s" % (cmd,))
    if check and p.returncode != 0:
        raise ToolError("command failed (%d): %s\n%s\n%s" % (p.returncode, cmd, p.stdout[-3000:], p.stderr[-3000:]))
    return p


def cl_env():
    return {"CONFIG_SITE": os.path.join(ROOT, "tools", "gmp-config.site"),
            "GMP_MPFR_SYS_CACHE": os.path.join(BUILD, "gmp-cache")}


def build_harness(cl=False):
    os.makedirs(BUILD, exist_ok=True)
    os.makedirs(os.path.join(BUILD, "gmp-cache"), exist_ok=True)
    pkg = "zkv-cl" if cl else "zkv"
    sh(["cargo", "build", "--release", "--offline", "-p", pkg], cwd=HARNESS, env=cl_env() if cl else None, timeout=3000)


def tlc(module, cfg_text, name, workers=None, extra_env=None, timeout=3000, java_opts=None, simulate=None):
    """run TLC on spec/<module>.tla with the given cfg; returns stdout"""
    os.makedirs(os.path.join(BUILD, "tlc"), exist_ok=True)
    cfg = os.path.join(BUILD, "tlc", name + ".cfg")
    with open(cfg, "w") as f:
        f.write(cfg_text)
    meta = os.path.join(BUILD, "tlc", name + ".meta")
    shutil.rmtree(meta, ignore_errors=True)
    cmd = ["tlc", "-workers", str(workers or TLC_WORKERS), "-metadir", meta, "-cleanup", "-noGenerateSpecTE",
           "-config", cfg]
    if simulate:
        cmd += ["-simulate", simulate]
    cmd += [module + ".tla"]
    env = dict(extra_env or {})
    env["JAVA_TOOL_OPTIONS"] = java_opts or "-Xss64m"
    p = sh(cmd, cwd=SPEC, env=env, timeout=timeout, check=False)
    shutil.rmtree(meta, ignore_errors=True)
    out = p.stdout
    with open(os.path.join(BUILD, "tlc", name + ".out"), "w") as f:
        f.write(out)
    return p.returncode, out


def ensure_layouts():
    rc, out = tlc("ExportLayouts", "INIT Init\nNEXT Next\n", "layouts", workers=1, timeout=120)
    m = re.search(r'<<"LAYOUTS", "(.*)">>', out)
    if not m:
        raise ToolError("layout export failed:\n" + out[-2000:])
    s = json.loads('"' + m.group(1) + '"')
    json.loads(s)
    with open(LAYOUTS, "w") as f:
        f.write(s)


def tlc_stats(out):
    st = {"states": 0, "distinct": 0, "depth": 0}
    m = re.search(r"(\d[\d,]*) states generated, (\d[\d,]*) distinct states found", out)
    if m:
        st["states"] = int(m.group(1).replace(",", ""))
        st["distinct"] = int(m.group(2).replace(",", ""))
    m = re.search(r"depth of the complete state graph search is (\d+)", out)
    if m:
        st["depth"] = int(m.group(1))
    return st


def tlc_coverage(out):
    """per-action counts from -coverage 1: '<Action line .. of module M>: distinct:total'"""
    cov = {}
    for m in re.finditer(r"^<(\w+) line \d+, col \d+ to line \d+, col \d+ of module (\w+)>: (\d+):(\d+)", out, re.M):
        cov[m.group(1)] = {"distinct": int(m.group(3)), "total": int(m.group(4))}
    return cov


def tlc_error(out):
    if "Model checking completed. No error has been found." in out or "Finished in" in out and "Error:" not in out:
        return None
    m = re.search(r"Error: (.*)", out)
    return m.group(0) if m else "TLC did not complete"


def extract_cases(out, path):
    """one exported behaviour per line; also per-action counts (op, res) as vacuity guard"""
    n = 0
    acts = {}
    with open(path, "w") as f:
        for m in re.finditer(r'^<<"CASE", "(.*)">>$', out, re.M):
            line = json.loads('"' + m.group(1) + '"')
            f.write(line + "\n")
            n += 1
            for st in json.loads(line):
                k = "%s:%s/%s" % (st["op"], st["res"], st["prov"])
                acts[k] = acts.get(k, 0) + 1
    return n, acts


def cfg_text(consts, init="MCInit", nxt="Next", invariants=(), props=(), constraint=None, view=None):
    lines = ["CONSTANTS"]
    for k, v in consts.items():
        lines.append("  %s = %s" % (k, v))
    lines += ["INIT " + init, "NEXT " + nxt]
    if invariants:
        lines.append("INVARIANTS " + " ".join(invariants))
    if props:
        lines.append("PROPERTIES " + " ".join(props))
    if constraint:
        lines.append("CONSTRAINT " + constraint)
    if view:
        lines.append("VIEW " + view)
    lines.append("CHECK_DEADLOCK FALSE")
    return "\n".join(lines) + "\n"


# ----------------------------------------------------------------------------
# slices: TLC configurations that export cases for replay
# ----------------------------------------------------------------------------
SLICES = {
    "sig": {"module": "MC_sig", "invariants": ["C01", "C02", "Refines", "Export"],
            "consts": {"quick": {"K": 3, "Dev": "{}", "MechBound": 99, "MaxL": 2}, "thorough": {"K": 4, "Dev": "{}", "MechBound": 99, "MaxL": 3}},
            "flip": {"quick": 5, "thorough": 1}},
    "proof": {"module": "MC_proof", "invariants": ["C03", "C04", "Refines", "Export"],
              "consts": {"quick": {"K": 3, "Dev": "{}", "MechBound": 99, "MaxL": 2, "Rich": "FALSE", "Mode": '"honest"'},
                         "thorough": {"K": 4, "Dev": "{}", "MechBound": 99, "MaxL": 3, "Rich": "TRUE", "Mode": '"honest"'}},
              "flip": {"quick": 0, "thorough": 0}},
    "proof_adv": {"module": "MC_proof", "invariants": ["C03", "C04", "Refines", "Export"],
                  "consts": {"quick": {"K": 3, "Dev": "{}", "MechBound": 99, "MaxL": 2, "Rich": "FALSE", "Mode": '"adv"'},
                             "thorough": {"K": 4, "Dev": "{}", "MechBound": 99, "MaxL": 2, "Rich": "TRUE", "Mode": '"adv"'}},
                  "flip": {"quick": 41, "thorough": 3}},
    "update": {"module": "MC_update", "invariants": ["C01", "C02", "C12", "C12scn", "Refines", "Export"],
               "consts": {"quick": {"K": 3, "Dev": "{}", "MechBound": 99, "MaxL": 2, "Depth": 2, "CrossSuite": "FALSE"},
                          "thorough": {"K": 4, "Dev": "{}", "MechBound": 99, "MaxL": 2, "Depth": 2, "CrossSuite": "TRUE"}},
               "flip": {"quick": 0, "thorough": 0}},
    "update_deep": {"module": "MC_update", "invariants": ["C01", "C02", "C12", "C12scn", "Refines", "Export"],
                    "consts": {"quick": {"K": 2, "Dev": "{}", "MechBound": 99, "MaxL": 1, "Depth": 3, "CrossSuite": "FALSE"},
                               "thorough": {"K": 3, "Dev": "{}", "MechBound": 99, "MaxL": 1, "Depth": 4, "CrossSuite": "FALSE"}},
                    "flip": {"quick": 0, "thorough": 0}},
    "blind": {"module": "MC_blind", "invariants": ["C05", "C06", "C02", "C04", "Refines", "Export"],
              "consts": {"quick": {"K": 3, "Dev": "{}", "MechBound": 99, "MaxL": 1, "MaxM": 1, "Mode": '"honest"'},
                         "thorough": {"K": 4, "Dev": "{}", "MechBound": 99, "MaxL": 2, "MaxM": 2, "Mode": '"honest"'}},
              "flip": {"quick": 0, "thorough": 0}},
    "blind_adv": {"module": "MC_blind", "invariants": ["C05", "C06", "C02", "C04", "Refines", "Export"],
                  "consts": {"quick": {"K": 3, "Dev": "{}", "MechBound": 99, "MaxL": 1, "MaxM": 1, "Mode": '"adv"'},
                             "thorough": {"K": 4, "Dev": "{}", "MechBound": 99, "MaxL": 2, "MaxM": 1, "Mode": '"adv"'}},
                  "flip": {"quick": 41, "thorough": 5}},
    "protocol": {"module": "MC_protocol", "invariants": ["C05", "C06", "Refines", "NoMixAndMatch", "NoReplay", "Unlinkable", "Export"],
                 "constraint": "NetBound", "view": "PView",
                 "consts": {"quick": {"K": 2, "Dev": "{}", "MechBound": 99, "Holders": "{1, 2}", "MaxNet": 4},
                            "thorough": {"K": 2, "Dev": "{}", "MechBound": 99, "Holders": "{1, 2}", "MaxNet": 5}},
                 "flip": {"quick": 0, "thorough": 0}},
    "shape_sig": {"module": "MC_shape", "invariants": ["C01", "C02", "C12", "Refines", "Export"],
                  "consts": {"quick": {"K": 2, "Dev": "{}", "MechBound": 4, "Ls": "{0, 1, 2, 31, 32, 33, 128, 129, 257}", "Ms": "{}", "Fam": '"sig"'},
                             "thorough": {"K": 2, "Dev": "{}", "MechBound": 4, "Ls": "{0, 1, 2, 3, 31, 32, 33, 64, 127, 128, 129, 255, 256, 257, 1000, 2000}", "Ms": "{}", "Fam": '"sig"'}},
                  "flip": {"quick": 0, "thorough": 0}, "chunks": "7"},
    # every length of a range exactly once (honest runs): thresholds can hide at any size
    "sweep": {"module": "MC_shape", "invariants": ["C01", "C03", "C05", "Refines", "Export"],
              "consts": {"quick": {"K": 2, "Dev": "{}", "MechBound": 4, "Ls": "{" + ", ".join(str(i) for i in range(0, 201)) + "}",
                                   "Ms": "{" + ", ".join(str(i) for i in range(0, 201)) + "}", "Fam": '"sweep"'},
                         "thorough": {"K": 2, "Dev": "{}", "MechBound": 4, "Ls": "{" + ", ".join(str(i) for i in range(0, 521)) + "}",
                                      "Ms": "{" + ", ".join(str(i) for i in range(0, 301)) + "}", "Fam": '"sweep"'}},
              "flip": {"quick": 0, "thorough": 0}, "chunks": "7"},
    "shape_proof": {"module": "MC_shape", "invariants": ["C03", "C04", "Refines", "Export"],
                    "consts": {"quick": {"K": 2, "Dev": "{}", "MechBound": 4, "Ls": "{0, 1, 2, 32, 33, 129, 257}", "Ms": "{}", "Fam": '"proof"'},
                               "thorough": {"K": 2, "Dev": "{}", "MechBound": 4, "Ls": "{0, 1, 2, 3, 31, 32, 33, 64, 127, 128, 129, 255, 256, 257, 1000}", "Ms": "{}", "Fam": '"proof"'}},
                    "flip": {"quick": 0, "thorough": 0}, "chunks": "7"},
    "shape_blind": {"module": "MC_shape", "invariants": ["C05", "C06", "Refines", "Export"],
                    "consts": {"quick": {"K": 2, "Dev": "{}", "MechBound": 4, "Ls": "{0, 1, 33}", "Ms": "{0, 1, 33}", "Fam": '"blind"'},
                               "thorough": {"K": 2, "Dev": "{}", "MechBound": 4, "Ls": "{0, 1, 2, 32, 33, 129, 257}", "Ms": "{0, 1, 2, 16, 33, 129}", "Fam": '"blind"'}},
                    "flip": {"quick": 0, "thorough": 0}, "chunks": "7"},
}

HOOK_COMMITS = ["5b39d5a", "39ac302"]

# implementation -> specification: trace families (driver of record.rs) and sizes per tier
TRACES = {
    "sig":   {"quick": (3, 300, 300), "thorough": (24, 400, 2000)},
    "proof": {"quick": (3, 300, 300), "thorough": (24, 400, 1000)},
    "blind": {"quick": (3, 300, 64), "thorough": (24, 400, 300)},
    "all":   {"quick": (3, 300, 300), "thorough": (24, 400, 2000)},
}

CLTXT = 'MC_cl.tla evaluates the CL03 specification on bounded instances (toy RSA groups from safe primes, message formats, the verifiers as constraint sets, the table of blinding lengths) and TLC checks the invariant(s) named in the evidence; the drivers of the CL harness run the real library (feature cl03, keys generated by the library) systematically and log one event per observation; TLC validates every log against Trace_CL.tla, whose predictions are derived from CL03.tla. '

MC_TEXT = "TLC checks the invariant(s) exhaustively on the bounded slice(s) listed in the evidence (constants recorded there), in the toy interpretation of the mechanical transcription of the operations (Mech) against the provenance-level statement of the property (Prov); every behaviour of the slice is exported and replayed into the real library under several concretisations of its abstract octets, where decisions, lengths and (for deterministic operations) octets must agree with the specification; "

PROPS = {
    "C01": {"slices": ["sig", "shape_sig", "sweep"], "traces": "sig", "tally": ["C01"], "title": "BBS signature completeness",
            "level_text": MC_TEXT + "slice `sig`: 2 suites, headers absent/empty/non-empty, every message vector over 3 atoms (one the empty message) up to MaxL, absent-vs-empty presentations, encode/decode round trip."},
    "C02": {"slices": ["sig", "shape_sig"], "traces": "sig", "tally": ["C02"], "title": "BBS signature binding",
            "level_text": MC_TEXT + "slice `sig`: every single edit of the message vector (change, insert, delete, swap), every other header, the other key, the other suite, the blind interface, and tampered encodings - replayed with single-bit flips of the affected fields of the 80 octets (all 640 bits in the thorough tier)."},
    "C03": {"slices": ["proof", "shape_proof", "sweep"], "traces": "proof", "tally": ["C03"], "title": "BBS proof completeness",
            "level_text": MC_TEXT + "slice `proof`: every message vector up to MaxL, EVERY disclosure subset (also as unsorted / duplicated / absent index lists), header and presentation header absent/empty/non-empty, round trip; the proof length 272 + 32 U is checked on the real proofs, which are produced with production randomness and recomputed from the recorded draws."},
    "C04": {"slices": ["proof_adv", "shape_proof"], "traces": "proof", "tally": ["C04"], "title": "BBS proof soundness",
            "level_text": MC_TEXT + "slice `proof_adv`: every single edit of the verifier's statement (message, index, pair added/removed, lists of different lengths, duplicate index with forged message, header, presentation header, key, suite, interface), every tampered field and +-1 scalar of the encoding (with bit flips), and the attacker's family of proofs assembled from public data (identity / multiples of the verifier's Bv / unrelated points, responses solved) through from_bytes and through serde."},
    "C05": {"slices": ["blind", "shape_blind", "sweep"], "traces": "blind", "tally": ["C05"], "title": "Blind BBS completeness",
            "level_text": MC_TEXT + "slice `blind`: (L, M) up to the bounds, with and without commitment (and commitment to zero messages), ALL pairs of disclosure choices, absent/empty presentations, round trips; blind signature octets equal the specification's."},
    "C06": {"slices": ["blind_adv", "shape_blind", "protocol"], "traces": "blind", "tally": ["C06"], "title": "Blind BBS soundness",
            "level_text": MC_TEXT + "slice `blind_adv`: tampered / truncated / extended / cross-suite commitments shown to the signer (with bit flips of the commitment octets), every single edit of the inputs of verify_blind_sign and blind_proof_verify including L +- 1, aliasing of committed and signer messages, duplicate indexes with forged messages, plain-interface verification; slice `protocol`: issuance and presentation as a multi-party protocol over an attacker-controlled network (mix-and-match of commitments and signatures between the sessions of two holders, replay of presentations under another verifier nonce), every interleaving within the message bound, invariants NoMixAndMatch, NoReplay, Unlinkable."},
    "C07": {"kind": "rng", "title": "Fresh blinding",
            "level_text": "The specification Rng.tla (per-thread streams of globally unique draws, the consumption map of proof_gen / commit / random keys / blinding factors) is model-checked by TLC over all interleavings of three threads (invariants Fresh, Consumption; the shared-stream variant is shown to violate Fresh). Randomness traces recorded from the real library on 1, 2 and 16 threads and in separately started processes - every production draw (hook), the blinding scalars recomputed by the witness holder, group elements, secrets, and scans of the encodings for hidden values - are validated by TLC against Trace_Rng.tla: all values pairwise distinct, non-zero, of full size, zero scan hits.",
            "level_note": "Distinctness / size / non-zero only; the unpredictability of rand::thread_rng is trusted. Trusted base: TLC, the rng_draw hook (add-only), SHA-256 digests truncated to 96 bits."},
    "C08": {"kind": "codec", "title": "Untrusted input never crashes",
            "level_text": "Codec.tla defines every BBS decoder as a total function of (length, content class per field) and the count arithmetic of the entry points taking untrusted numbers with explicit guards; TLC enumerates every length 0 .. honest + 64, every single-field class and the grid of indexes / counts (scaled usize) and checks that no input yields Panic and that requested work stays within the budget; every enumerated input is built concretely and handed to the real decoders / entry points under catch_unwind with overflow checks on and a generator budget installed through the gen_request hook; the panic tallies of the API slices and of all traces count as well."},
    "C09": {"kind": "codec", "title": "Canonical and strict encodings",
            "level_text": "Codec.tla: a strict decoder accepts exactly the honest length, canonical scalars, valid subgroup points, and rejects identity / zero where draft-08 forbids them; invariant C09: whatever decodes re-encodes to itself. TLC enumerates lengths and content classes; each input is replayed into the library's decoders (decision, and re-encoding compared octet for octet), with single-bit flips of every honest encoding and round trips through octets, public-key coordinates and JSON."},
    "C10": {"kind": "det", "level": "translation_validation", "title": "Byte-exact agreement with the drafts",
            "level_text": "The specification's terms are the reference: the concrete evaluator interprets the field lists exported from Layouts.tla (the same lists the toy model hashes) and must first reproduce every fixture; for every case of slice det (key generation with all size-limit classes, hash_to_scalar, message mapping, generators for built-in / absent / empty / custom api ids and counts) and every behaviour of the API slices, library octets = evaluated term and library decision = reference decision, from one thread and from 16 threads in shuffled order (TLC: results are schedule independent).",
            "technique": "TLA+ layouts interpreted by an independent evaluator; TLC-enumerated grid and behaviours replayed; octet-level comparison"},
    "C11": {"kind": "det", "title": "Domain separation",
            "level_text": "TLC checks (slice inject) that every hash input layout is an injective encoding of its argument tuple over a tiny octet alphabet; the cross-suite / cross-interface re-interpretations enumerated by the slices sig, proof_adv, blind_adv (invariants C02, C04, C06) are replayed into the library (all must be rejected); generator sets for every api id in use and custom / absent ids are checked for prefix consistency, duplicates, identity, P1 and pairwise disjointness across ciphersuites and api ids."},
    "C13": {"kind": "cl", "title": "CL03 signatures",
            "level_text": CLTXT + "MC_clproto.tla models issuance and presentation as a state machine over abstract artefacts (what a signature signs is its content: per position the multiset of attribute atoms in the exponent); TLC checks C14honest, C14refuses, C13unique, C15asmade on every behaviour with at most MaxDev deviations from the honest protocol, exports every complete behaviour with the expected outcome of each call, and `zkv-cl proto` replays them on real keys (specification -> implementation). C13: invariant C13toy (every toy key, attribute vector, admissible e and every derivation v * prod a_i^alpha_i * b^beta with coefficients in -2..2: issued signatures verify, derived pairs verify only for the unchanged vector); the derivations are exported and replayed on real CL1024 (thorough: CL2048) keys together with statement and component edits, selective disclosure of every subset, encodings and facts about e."},
    "C14": {"kind": "cl", "title": "CL03 blind issuance",
            "level_text": CLTXT + "MC_clproto.tla models issuance and presentation as a state machine over abstract artefacts (what a signature signs is its content: per position the multiset of attribute atoms in the exponent); TLC checks C14honest, C14refuses, C13unique, C15asmade on every behaviour with at most MaxDev deviations from the honest protocol, exports every complete behaviour with the expected outcome of each call, and `zkv-cl proto` replays them on real keys (specification -> implementation). C14: every non-empty hidden set for n <= 3 (thorough 5), with and without trusted commitment: verify_proof, blind_sign, unblind, verify, update; mismatch families and every integer leaf of the serialised proof perturbed; blind_sign's refusal is observed as its documented panic."},
    "C15": {"kind": "cl", "title": "CL03 proof of knowledge of a signature",
            "level_text": CLTXT + "MC_clproto.tla models issuance and presentation as a state machine over abstract artefacts (what a signature signs is its content: per position the multiset of attribute atoms in the exponent); TLC checks C14honest, C14refuses, C13unique, C15asmade on every behaviour with at most MaxDev deviations from the honest protocol, exports every complete behaviour with the expected outcome of each call, and `zkv-cl proto` replays them on real keys (specification -> implementation). C15: invariant C15used (every leaf the format carries is used by the verifier); every hidden subset, single edits of the statement, and every integer leaf of the serialised proof perturbed (+1, -1, 0, swap)."},
    "C16": {"kind": "cl", "title": "Boudot range proof",
            "level_text": CLTXT + "C16: invariant C16anchored (every part of the square decomposition is certified by a sub-proof tied to a recomputed value); widths 1, 2, 3, 2^8, 2^64, 2^256-1 (thorough 2^1024-1), positions a, a+1, mid, b-1, b, random, three base sets; other bounds / bases / modulus; invariant C16tolerance (toy intervals: only in-range values are acceptable given what the larger-interval proof shows); Apalache discharges BoudotLemmas!BoudotTolerance (the same arithmetic for all security parameters and all widths, SMT); transplants onto a-1, b+1, a-2^k, b+2^k and a random element; shifted proofs (commitment divided by g^d, larger-interval responses moved accordingly) onto a-1, b+1, a-w, b+w; every leaf +-1; the honest prover outside the interval."},
    "C17": {"kind": "cl", "title": "CL03 proofs do not carry openings",
            "level_text": CLTXT + "C17: invariant C17noOpenings (the intended formats contain no commitment randomness); the leaf paths of real proofs must equal the specification's format; every (value, randomness) pair is tested against every public base pair and hidden secret, a two-candidate dictionary attack and the recovery of v; implied blindings s - c x of all responses pairwise distinct (also across sub-proofs with different challenges, with and without a trusted commitment); invariant C17split and CLRangeSplit events: the four randomness parts of every range proof decomposition are independent (no product of two proof fields is a function of the hidden value alone)."},
    "C18": {"kind": "cl", "title": "CL03 keys and parameters",
            "level_text": CLTXT + "C18: invariant C18toy (for every pair of safe primes below the bound the accept conditions of random_qr and of the commitment-key bases imply well-formedness); facts about generated keys computed by an independent Miller-Rabin / Jacobi implementation; encodings; random_bits / rand_int."},
    "C19": {"kind": "cl", "title": "CL03 responses mask their secrets",
            "level_text": CLTXT + "C19: invariant C19masks over the table of blinding lengths for the three suites (the arithmetic behind the table, MaskLemmas, is discharged for all values by Apalache); for real proofs every response leaf is divided by every recomputable challenge and by every other response and compared with every secret the prover holds (issuance proofs without and with a trusted commitment, the latter also with a short-randomness commitment of the trusted party); implied blindings pairwise distinct; blinding draws of proofs made on fresh threads pairwise distinct."},
    "C12": {"slices": ["update", "shape_sig"], "slices_thorough": ["update_deep"], "traces": "sig", "tally": ["C12", "C02", "C01"], "title": "Signature update over any history",
            "level_text": MC_TEXT + "slice `update`: every history of up to Depth updates at every position with every new value, with correct and wrong old values, out-of-range positions, then verification against the intended current vector and every earlier vector; updated signature octets equal the reference's B(msgs)/(sk+e)."},
}

def seed():
    try:
        return int(os.environ.get("VERIF_SEED", "1"))
    except ValueError:
        return 1


def run_slice(name, tier, prop):
    sl = SLICES[name]
    rc, out = tlc(sl["module"], cfg_text(sl["consts"][tier], invariants=sl["invariants"], constraint=sl.get("constraint"), view=sl.get("view")),
                  "%s_%s_%s" % (prop, name, tier))
    err = tlc_error(out)
    res = {"slice": name, "constants": sl["consts"][tier], "stats": tlc_stats(out), "tlc_error": None, "violated_invariant": None}
    if err:
        m = re.search(r"Invariant (\w+) is violated", out)
        if m:
            res["violated_invariant"] = m.group(1)
            res["tlc_error"] = err
            return res, None
        raise ToolError("TLC failed on slice %s: %s\n%s" % (name, err, out[-3000:]))
    cases = os.path.join(BUILD, "cases_%s_%s_%s.ndjson" % (prop, name, tier))
    res["cases"], res["actions"] = extract_cases(out, cases)
    if res["cases"] == 0:
        raise ToolError("slice %s exported no case (vacuous)" % name)
    return res, cases


def replay(cases, tier, prop, name, flip):
    rep = os.path.join(BUILD, "rep_%s_%s_%s.json" % (prop, name, tier))
    chunks = SLICES[name].get("chunks") or ("1,32,255,256" if tier == "quick" else "1,31,32,33,255,256,257,1024")
    sh([ZKV, "replay", cases, rep, "--flip-stride", str(flip), "--threads", "16", "--chunks", chunks],
       env={"ZKV_LAYOUTS": LAYOUTS, "VERIF_SEED": str(seed())}, timeout=6000)
    return json.load(open(rep))


TRACE_CFG = """CONSTANTS
  K = 2
  Dev = {}
  MechBound = 6
INIT TraceInit
NEXT TraceNext
INVARIANTS C01 C02 C03 C04 C05 C06 C12 Refines
POSTCONDITION TraceAccepted
CHECK_DEADLOCK FALSE
"""

# the property a rejected event belongs to: what the library answered decides the direction
def trace_prop(ev):
    op, res = ev.get("op"), ev.get("res")
    if res == "Panic":
        return "C08"
    compl = {"Sign": "C01", "Verify": "C01", "RoundTrip": "C09", "Update": "C12", "ProofGen": "C03", "ProofVerify": "C03",
             "Commit": "C05", "BlindSign": "C05", "VerifyBlind": "C05", "BlindProofGen": "C05", "BlindProofVerify": "C05", "KeyGen": "C01", "Tamper": "C01"}
    sound = {"Verify": "C02", "ProofVerify": "C04", "BlindSign": "C06", "VerifyBlind": "C06", "BlindProofVerify": "C06", "Update": "C12",
             "Sign": "C01", "ProofGen": "C03", "Commit": "C05", "BlindProofGen": "C05"}
    # the library said Ok where the specification did not -> soundness; otherwise completeness
    return sound.get(op, "C10") if res == "Ok" else compl.get(op, "C10")


def validate_trace(path, name):
    """TLC validates one recorded trace file against Trace_Api; returns (accepted, events, matched, first_unmatched, error)"""
    rc, out = tlc("Trace_Api", TRACE_CFG, name, workers=1, extra_env={"TRACE": path},
                  java_opts="-Xss512m -Dtlc2.tool.queue.IStateQueue=StateDeque", timeout=3000)
    events = sum(1 for _ in open(path))
    m = re.search(r'<<"TRACE-REJECTED", "events", (\d+), "matched", (\d+), "first unmatched", "(.*)">>', out)
    if m:
        ev = json.loads(json.loads('"' + m.group(3) + '"'))
        return False, events, int(m.group(2)), ev, None
    if "Model checking completed. No error has been found." in out:
        return True, events, events, None, None
    inv = re.search(r"Invariant (\w+) is violated", out)
    if inv:
        return False, events, 0, None, "specification-level: invariant %s violated while validating a trace" % inv.group(1)
    return False, events, 0, None, "TLC failed on trace: " + out[-1500:]


def run_traces(family, tier, prop):
    runs, events, maxl = TRACES[family][tier]
    res = {"family": family, "files": 0, "events": 0, "accepted": 0, "rejections": []}
    per_file = 6 if tier == "thorough" else 3
    nfiles = (runs + per_file - 1) // per_file
    for k in range(nfiles):
        path = os.path.join(BUILD, "trace_%s_%s_%d.ndjson" % (prop, tier, k))
        sh([ZKV, "record", path, "--runs", str(min(per_file, runs - k * per_file)), "--events", str(events), "--max-l", str(maxl),
            "--salt", str(k), "--family", family], env={"ZKV_LAYOUTS": LAYOUTS, "VERIF_SEED": str(seed())}, timeout=3000)
        ok, n, matched, ev, err = validate_trace(path, "trace_%s_%s_%d" % (prop, tier, k))
        res["files"] += 1
        res["events"] += n
        if err:
            raise ToolError(err)
        if ok:
            res["accepted"] += min(per_file, runs - k * per_file)      # every Reset-delimited run is one trace
        else:
            res["rejections"].append({"file": path, "matched": matched, "event": ev, "property": trace_prop(ev)})
        if k == 0:
            with open(path) as f:
                res["sample"] = [json.loads(next(f)) for _ in range(6)]
    return res


def write_replay_file(prop, mm):
    os.makedirs(REPLAYS, exist_ok=True)
    h = hashlib.sha256(json.dumps(mm, sort_keys=True).encode()).hexdigest()[:12]
    path = os.path.join(REPLAYS, "%s_%s.json" % (prop, h))
    with open(path, "w") as f:
        json.dump(mm, f, indent=1)
    return path


def check_fixtures():
    p = sh([ZKV, "fixtures"], env={"ZKV_LAYOUTS": LAYOUTS}, check=False)
    if p.returncode != 0:
        raise ToolError("the reference evaluator does not reproduce the fixtures:\n" + p.stdout[-2000:])
    return json.loads(p.stdout.splitlines()[0])


def run_property(prop, tier):
    t0 = time.time()
    spec = PROPS[prop]
    build_harness()
    ensure_layouts()
    fx = check_fixtures()
    violations = []
    slices_ev = []
    tot_states = tot_trans = 0
    evaluations = 0
    distinct = 0
    samples = []
    drift = []
    for name in spec["slices"] + (spec.get("slices_thorough", []) if tier == "thorough" else []):
        res, cases = run_slice(name, tier, prop)
        slices_ev.append(res)
        tot_states += res["stats"]["distinct"]
        tot_trans += res["stats"]["states"]
        if res["violated_invariant"]:
            violations.append({"property": prop, "what": "TLC: invariant %s violated in slice %s (specification level)" % (res["violated_invariant"], name)})
            continue
        rep = replay(cases, tier, prop, name, SLICES[name]["flip"][tier])
        res["replay"] = {k: rep[k] for k in ("cases", "concrete_runs", "steps", "flips", "checks")}
        evaluations += sum(rep["checks"].get(t, 0) for t in spec["tally"])
        distinct += rep["cases"]
        samples += rep["samples"][:2]
        drift += rep["drift"][:20]
        for mm in rep["mismatches"]:
            if mm["property"] in spec["tally"]:
                violations.append(mm)
    traces = None
    if spec.get("traces"):
        traces = run_traces(spec["traces"], tier, prop)
        for rj in traces["rejections"]:
            violations.append({"property": prop, "what": "recorded trace rejected by the specification at event %d (%s): the library answered %s" % (
                rj["matched"] + 1, rj["event"].get("op"), rj["event"].get("res")), "expected": "the specification's decision", "observed": rj["event"].get("res"),
                "trace": rj["file"], "event": rj["event"], "attributed_to": rj["property"]})
        if traces.get("sample"):
            samples.append({"trace_prefix": traces["sample"]})
    ev = {
        "property_id": prop, "tier": tier, "seed": seed(), "level": "model_checking",
        "coverage": {
            "states": tot_states, "transitions": tot_trans,
            "traces_validated_against_impl": (traces or {}).get("accepted", 0),
            "trace_events_validated": (traces or {}).get("events", 0),
            "traces": {k: v for k, v in (traces or {}).items() if k != "sample"},
            "cases_replayed_into_impl": distinct,
            "evaluations": evaluations, "distinct_nontrivial": distinct,
            "rule": "every behaviour of the bounded TLC slice(s) is one case; each is executed against the real library under one or more concretisations of its abstract octets; a case is distinct by its action sequence and arguments, non-trivial because it contains at least one producing and one deciding call",
            "samples": samples[:4], "slices": slices_ev, "fixtures_reproduced": fx, "drift": drift,
            "exhaustive": True,
        },
        "assumptions": [
            "toy interpretation: collision-free hashes, generic group, K fixed samples (DESIGN 3.2)",
            "bounded model: constants listed per slice",
            "hash / curve primitive crates are shared between library and reference evaluator",
        ],
        "wall_s": round(time.time() - t0, 1), "violations": len(violations),
    }
    os.makedirs(EVID, exist_ok=True)
    with open(os.path.join(EVID, prop + ".json"), "w") as f:
        json.dump(ev, f, indent=1)
    if violations:
        seen = set()
        for v in violations[:10]:
            path = write_replay_file(prop, v)
            if path in seen:
                continue
            seen.add(path)
            print("VIOLATION property=%s replay=%s" % (prop, path))
            print("  " + (v.get("what") or "") + " expected=" + str(v.get("expected"))[:80] + " observed=" + str(v.get("observed"))[:80])
        return 1
    print("OK property=%s tier=%s states=%d cases=%d checks=%d wall=%.0fs" % (prop, tier, tot_states, distinct, evaluations, time.time() - t0))
    return 0

# ----------------------------------------------------------------------------
# C08 / C09: slice `codec` (decoders, count arithmetic) replayed into the decoders
# ----------------------------------------------------------------------------
def run_codec_property(prop, tier):
    t0 = time.time()
    build_harness()
    ensure_layouts()
    fx = check_fixtures()
    consts = {"Dev": "{}", "MaxN": 2 if tier == "quick" else 4}
    rc, out = tlc("MC_codec", cfg_text(consts, init="Init", invariants=["C08", "C09", "Export"]), "%s_codec_%s" % (prop, tier), workers=4)
    err = tlc_error(out)
    violations = []
    stats = tlc_stats(out)
    if err:
        m = re.search(r"Invariant (\w+) is violated", out)
        if not m:
            raise ToolError("TLC failed on slice codec: %s\n%s" % (err, out[-2000:]))
        violations.append({"property": prop, "what": "TLC: invariant %s violated in slice codec (specification level)" % m.group(1)})
    cases = os.path.join(BUILD, "cases_%s_codec_%s.ndjson" % (prop, tier))
    n = 0
    kinds = {}
    with open(cases, "w") as f:
        for m in re.finditer(r'^<<"CASE", "(.*)">>$', out, re.M):
            line = json.loads('"' + m.group(1) + '"')
            f.write(line + "\n")
            n += 1
            c = json.loads(line)
            k = c["kind"] + ":" + (c.get("codec") or c.get("op")) + ":" + c["res"]
            kinds[k] = kinds.get(k, 0) + 1
    if n == 0:
        raise ToolError("slice codec exported no case")
    repf = os.path.join(BUILD, "rep_%s_codec_%s.json" % (prop, tier))
    sh([ZKV, "replay-codec", cases, repf, "--flip-stride", "7" if tier == "quick" else "1"],
       env={"ZKV_LAYOUTS": LAYOUTS, "VERIF_SEED": str(seed())}, timeout=3000)
    rep = json.load(open(repf))
    for mm in rep["mismatches"]:
        if mm["property"] == prop:
            violations.append(mm)
    # the API-level slices also exercise panics (C08) and re-encodings (C09): count their tallies
    extra = {}
    api_names = (["proof_adv", "blind_adv"] if prop == "C08" else ["sig", "proof"])
    if tier == "quick":
        api_names = api_names[-1:] if prop == "C09" else []
    for name in api_names:
        res, cs = run_slice(name, "quick", prop)
        r2 = replay(cs, "quick", prop, name, 0)
        extra[name] = {"cases": r2["cases"], "checks": r2["checks"].get(prop, 0)}
        for mm in r2["mismatches"]:
            if mm["property"] == prop:
                violations.append(mm)
    evals = rep["checks"].get(prop, 0) + sum(v["checks"] for v in extra.values())
    lemmas = None
    if prop == "C08":
        # unbounded arithmetic lemmas (all naturals), discharged symbolically by Apalache
        p = sh(["timeout", "600", "apalache-mc", "check", "--init=Init", "--next=Next", "--inv=Lemmas", "--length=0",
                "--out-dir=" + os.path.join(BUILD, "apalache"), "Lemmas.tla"], cwd=os.path.join(SPEC, "apalache"), check=False, timeout=700)
        if "The outcome is: NoError" in p.stdout:
            lemmas = "IndexTranslation, ProofLength, CommitLength, UpdateGuards, NaturalM, GeneratorLoop hold for all naturals (Apalache, SMT)"
        elif "violat" in p.stdout.lower():
            violations.append({"property": prop, "what": "Apalache: an arithmetic lemma of spec/apalache/Lemmas.tla is violated (specification level)"})
        else:
            lemmas = "apalache-mc did not complete (tool problem, not counted): " + p.stdout[-200:]
    ev = {
        "property_id": prop, "tier": tier, "seed": seed(), "level": "model_checking",
        "coverage": {
            "unbounded_lemmas": lemmas,
            "states": stats["distinct"], "transitions": stats["states"], "traces_validated_against_impl": 0,
            "cases_replayed_into_impl": rep["cases"] + sum(v["cases"] for v in extra.values()),
            "evaluations": evals, "distinct_nontrivial": n,
            "rule": "one case per (codec, number of variable scalars, content class of every field, length delta) and per point of the grid of caller-supplied numbers; distinct by these coordinates; every case is built concretely and handed to the library's decoders / entry points under catch_unwind with a generator budget",
            "samples": rep["samples"][:4], "case_kinds": kinds, "api_slices": extra, "fixtures_reproduced": fx, "exhaustive": True,
        },
        "assumptions": ["lengths 0 .. honest + 64 for every codec with up to MaxN variable scalars; one non-valid field at a time",
                        "usize modelled by a scaled range (MaxU -> usize::MAX, Half -> 2^63, Big -> 2^32)"],
        "wall_s": round(time.time() - t0, 1), "violations": len(violations),
    }
    return finish(prop, tier, ev, violations, "states=%d cases=%d checks=%d" % (stats["distinct"], n, evals), t0)


def finish(prop, tier, ev, violations, summary, t0):
    os.makedirs(EVID, exist_ok=True)
    with open(os.path.join(EVID, prop + ".json"), "w") as f:
        json.dump(ev, f, indent=1)
    if violations:
        seen = set()
        for v in violations[:10]:
            path = write_replay_file(prop, v)
            if path in seen:
                continue
            seen.add(path)
            print("VIOLATION property=%s replay=%s" % (prop, path))
            print("  " + str(v.get("what"))[:200] + " expected=" + str(v.get("expected"))[:80] + " observed=" + str(v.get("observed"))[:80])
        return 1
    print("OK property=%s tier=%s %s wall=%.0fs" % (prop, tier, summary, time.time() - t0))
    return 0


# ----------------------------------------------------------------------------
# C07: slice `rng` + randomness traces from threads and processes
# ----------------------------------------------------------------------------
RNG_CFG = """CONSTANTS
  Threads <- MCThreads
  Jobs <- MCJobs
  Shared = %s
INIT Init
NEXT Next
INVARIANTS Fresh Consumption
CHECK_DEADLOCK FALSE
"""
RNG_TRACE_CFG = """INIT TraceInit
NEXT TraceNext
POSTCONDITION TraceAccepted
CHECK_DEADLOCK FALSE
"""


def run_rng_property(prop, tier):
    t0 = time.time()
    build_harness()
    ensure_layouts()
    rc, out = tlc("MC_rng", RNG_CFG % "FALSE", "C07_rng", workers=4)
    if tlc_error(out):
        raise ToolError("slice rng failed: " + out[-2000:])
    stats = tlc_stats(out)
    # non-vacuity: the shared-stream defect must violate Fresh
    rc, out2 = tlc("MC_rng", RNG_CFG % "TRUE", "C07_rng_shared", workers=4)
    if "Invariant Fresh is violated" not in out2:
        raise ToolError("slice rng is vacuous: the shared-stream model does not violate Fresh")
    violations = []
    traces = []
    confs = [(1, 1, 40), (1, 2, 24), (1, 16, 12), (2, 4, 16)] if tier == "quick" else [(1, 1, 400), (1, 2, 200), (1, 16, 120), (2, 16, 60), (4, 8, 60)]
    nev = 0
    samples = []
    for ci, (procs, threads, iters) in enumerate(confs):
        path = os.path.join(BUILD, "rngtrace_%s_%d.ndjson" % (tier, ci))
        with open(path, "w") as f:
            for pr in range(procs):                  # separately started processes, same inputs
                part = path + ".p%d" % pr
                sh([ZKV, "rng", part, "--proc", str(pr), "--threads", str(threads), "--iters", str(iters)],
                   env={"ZKV_LAYOUTS": LAYOUTS, "VERIF_SEED": str(seed())}, timeout=3000)
                f.write(open(part).read())
                os.remove(part)
        rc, o = tlc("Trace_Rng", RNG_TRACE_CFG, "C07_trace_%d" % ci, workers=1, extra_env={"TRACE": path},
                    java_opts="-Xss512m -Dtlc2.tool.queue.IStateQueue=StateDeque", timeout=3000)
        n = sum(1 for _ in open(path))
        nev += n
        m = re.search(r'<<"TRACE-REJECTED", "events", (\d+), "matched", (\d+), "first unmatched", "(.*)">>', o)
        if m:
            evj = json.loads(json.loads('"' + m.group(3) + '"'))
            violations.append({"property": prop, "what": "randomness trace rejected (procs=%d threads=%d): a value was repeated, zero, short, or a hidden value appears in an encoding" % (procs, threads),
                               "expected": "fresh, non-zero, full-size values; 0 scan hits", "observed": json.dumps(evj)[:300], "trace": path, "event": evj})
        elif "Model checking completed. No error has been found." not in o:
            raise ToolError("TLC failed on randomness trace: " + o[-1500:])
        slots = [json.loads(x) for x in open(path) if '"op":"Slots"' in x]
        traces.append({"procs": procs, "threads": threads, "iters": iters, "events": n, "accepted": m is None,
                       "drift_consumption_map": {"artefacts": len(slots), "as_specified": sum(1 for x in slots if x["match"])}})
        if ci == 0:
            with open(path) as f:
                samples = [json.loads(next(f)) for _ in range(4)]
    ev = {
        "property_id": prop, "tier": tier, "seed": seed(), "level": "model_checking",
        "coverage": {
            "states": stats["distinct"], "transitions": stats["states"],
            "traces_validated_against_impl": sum(1 for t in traces if t["accepted"]),
            "trace_events_validated": nev, "evaluations": nev, "distinct_nontrivial": nev,
            "rule": "one event per production random draw (hook), per randomised artefact (blinding scalars recomputed by the witness holder, group elements, secrets) and per encoding scan; all values must be pairwise distinct over the merged trace of all threads and processes",
            "samples": samples, "traces": traces, "shared_stream_model_violates_Fresh": True, "exhaustive": False,
        },
        "assumptions": ["distinctness, non-zero and size are checked, not unpredictability: the quality of rand::thread_rng is trusted",
                        "digests are 96-bit prefixes of SHA-256"],
        "wall_s": round(time.time() - t0, 1), "violations": len(violations),
    }
    return finish(prop, tier, ev, violations, "states=%d trace_events=%d" % (stats["distinct"], nev), t0)


# ----------------------------------------------------------------------------
# C10 / C11: slice `det` (+ `inject` for C11) and the C10 / C11 tallies of the API slices
# ----------------------------------------------------------------------------
def keep_cross_cases(path):
    """keep the behaviours whose last (deciding) call uses another suite / interface than the artefact it is given"""
    blind_ops = {"VerifyBlind", "BlindSign", "BlindProofGen", "BlindProofVerify", "Commit"}
    out = path.replace(".ndjson", "_cross.ndjson")
    with open(out, "w") as f:
        for line in open(path):
            steps = json.loads(line)
            last = steps[-1]
            prod = [st for st in steps[:-1] if st["op"] in ("Sign", "BlindSign", "ProofGen", "BlindProofGen", "Commit")]
            if not prod or "s" not in last["args"]:
                continue
            src = prod[-1]
            same = (last["args"]["s"] == src["args"]["s"]) and ((last["op"] in blind_ops) == (src["op"] in blind_ops))
            if not same:
                f.write(line)
    return out


def run_det_property(prop, tier):
    t0 = time.time()
    build_harness()
    ensure_layouts()
    fx = check_fixtures()
    violations = []
    rc, out = tlc("MC_det", "INIT Init\nNEXT Next\nINVARIANTS Deterministic Export\nCHECK_DEADLOCK FALSE\n", "%s_det_%s" % (prop, tier), workers=4)
    if tlc_error(out):
        raise ToolError("slice det failed: " + out[-2000:])
    stats = tlc_stats(out)
    cases = os.path.join(BUILD, "cases_%s_det_%s.ndjson" % (prop, tier))
    n = 0
    with open(cases, "w") as f:
        for m in re.finditer(r'^<<"CASE", "(.*)">>$', out, re.M):
            f.write(json.loads('"' + m.group(1) + '"') + "\n")
            n += 1
    if n == 0:
        raise ToolError("slice det exported no case")
    repf = os.path.join(BUILD, "rep_%s_det_%s.json" % (prop, tier))
    sh([ZKV, "replay-det", cases, repf, "--threads", "16"], env={"ZKV_LAYOUTS": LAYOUTS, "VERIF_SEED": str(seed())}, timeout=3000)
    rep = json.load(open(repf))
    evals = rep["checks"].get(prop, 0)
    for mm in rep["mismatches"]:
        if mm["property"] == prop:
            violations.append(mm)
    inject = None
    if prop == "C11":
        rc, o = tlc("MC_inject", "INIT Init\nNEXT Next\nINVARIANTS InjDomain InjSigE InjChallenge InjBlindChal InjBlindSigE InjGenIter Report\nCHECK_DEADLOCK FALSE\n",
                    "C11_inject", workers=1)
        m = re.search(r"Invariant (\w+) is violated", o)
        if m:
            violations.append({"property": prop, "what": "TLC: hash input layout is not injective: %s (specification level)" % m.group(1)})
        elif "Model checking completed. No error has been found." not in o:
            raise ToolError("slice inject failed: " + o[-1500:])
        r = re.search(r'<< "INJECT",(.*?)>>', o, re.S)
        inject = " ".join(r.group(1).split()) if r else None
    # API slices: octet / decision agreement (C10) or cross-suite / cross-interface rejections (C11)
    api = {}
    slices = (["sig", "proof", "blind", "shape_sig", "sweep", "update"] if prop == "C10" else ["sig", "proof_adv", "blind_adv"])
    if tier == "quick":
        slices = slices[:5] if prop == "C10" else slices
    samples = list(rep["samples"][:2])
    tot_states, tot_trans, ncases = stats["distinct"], stats["states"], n
    for name in slices:
        res, cs = run_slice(name, tier if prop == "C10" and name in ("sig",) else "quick", prop)
        if prop == "C11":
            cs = keep_cross_cases(cs)
        r2 = replay(cs, "quick", prop, name, 0)
        api[name] = {"cases": r2["cases"], "checks": r2["checks"].get(prop, 0), "constants": res["constants"]}
        evals += r2["checks"].get(prop, 0)
        ncases += r2["cases"]
        tot_states += res["stats"]["distinct"]
        tot_trans += res["stats"]["states"]
        samples += r2["samples"][:1]
        for mm in r2["mismatches"]:
            if mm["property"] == prop:
                violations.append(mm)
    fixtrace = None
    if prop == "C10":
        # the repository's own vectors as a trace, validated with every Api invariant on
        ft = os.path.join(BUILD, "fixtures_trace.ndjson")
        pr = sh([ZKV, "fixtures-trace", ft], env={"ZKV_LAYOUTS": LAYOUTS})
        info = json.loads(pr.stdout.splitlines()[-1])
        okf, nf, matched, evf, errf = validate_trace(ft, "C10_fixtures_trace")
        if errf:
            raise ToolError(errf)
        fixtrace = {"events": nf, "accepted": okf, "vectors_not_expressible": info["skipped"]}
        if not okf:
            violations.append({"property": prop, "what": "the trace built from the repository's fixtures is rejected by the specification at event %d: %s" % (matched + 1, json.dumps(evf)[:300]),
                               "expected": "the fixture's verdict = the specification's = the library's", "observed": json.dumps(evf)[:200], "trace": ft, "event": evf})
    level = "translation_validation" if prop == "C10" else "model_checking"
    cov = {
        "states": tot_states, "transitions": tot_trans, "traces_validated_against_impl": 1 if (fixtrace and fixtrace["accepted"]) else 0,
        "fixtures_as_trace": fixtrace,
        "cases_replayed_into_impl": ncases, "evaluations": evals, "distinct_nontrivial": ncases,
        "programs": ncases, "disagreements_checked": evals,
        "rule": "one case per point of the argument-class grid of slice det and per behaviour of the API slices; for each, the library's octets and decisions are compared with the concrete evaluation of the specification (reference evaluator driven by Layouts.tla), from one thread and from 16 threads in shuffled order",
        "samples": samples[:4], "api_slices": api, "fixtures_reproduced": fx, "inject": inject, "exhaustive": True,
    }
    ev = {"property_id": prop, "tier": tier, "seed": seed(), "level": level, "coverage": cov,
          "assumptions": ["the reference evaluator shares the hash and curve primitive crates with the library; it must first reproduce every fixture",
                          "schedules: the deterministic operations have no shared state; 16 threads in shuffled order are compared with one thread"],
          "wall_s": round(time.time() - t0, 1), "violations": len(violations)}
    return finish(prop, tier, ev, violations, "states=%d cases=%d checks=%d" % (tot_states, ncases, evals), t0)


# ----------------------------------------------------------------------------
# C13 .. C19: CL03 -- slices of MC_cl.tla and driver logs validated against Trace_CL.tla
# ----------------------------------------------------------------------------
CL = {
    "C13": {"inv": ["C13toy", "ExportDerivs"], "drivers": ["sig"], "ops": {"CLVerify", "CLSigFacts", "CLDisclose", "CLRoundTrip"}},
    "C14": {"inv": ["C15used"], "drivers": ["blind"], "ops": {"CLIssue", "CLUpdate", "CLLeaf:zkpok"}},
    "C15": {"inv": ["C15used", "ReportLinks"], "drivers": ["pok"], "ops": {"CLPoK", "CLLeaf:spok", "CLFormat:spok", "CLInfoLink"}},
    "C16": {"inv": ["C16anchored", "C16tolerance"], "drivers": ["boudot"], "ops": {"CLRange", "CLLeaf:range", "CLFormat:range", "CLRangeSplit"}},
    "C17": {"inv": ["C17noOpenings", "C17split"], "drivers": ["leak", "blind", "boudot"], "ops": {"CLFormat:zkpok", "CLFormat:spok", "CLOpenings", "CLDictionary", "CLUnblinded", "CLSharedBlinding", "CLRangeSplit", "CLCommitRand"}},
    "C18": {"inv": ["C18toy"], "drivers": ["keys", "sig"], "ops": {"CLKeyFacts", "CLRandomFacts", "CLRoundTrip"}},
    "C19": {"inv": ["C19masks"], "drivers": ["leak"], "ops": {"CLMask", "CLMaskLens", "CLMaskSummary", "CLUnblinded", "CLSharedBlinding", "CLFresh", "CLPoK", "CLRangeMask"}},
}
CL_TRACE_CFG = """CONSTANTS
  Dev = %s
INIT TraceInit
NEXT TraceNext
POSTCONDITION TraceAccepted
CHECK_DEADLOCK FALSE
"""


def open_findings():
    k = json.load(open(os.path.join(ROOT, "known_findings.json")))
    return [f for f in k["findings"] if f["status"].startswith("open")]


def finding_matches(f, ev):
    """does event ev exhibit open finding f? (signatures are listed in known_findings.json)"""
    for sig in f.get("signatures", []):
        if sig.get("op") != ev.get("op"):
            continue
        ok = True
        for k, v in sig.items():
            if k == "op":
                continue
            if k == "path_in":
                ok &= ev.get("path") in v
            elif k == "case_in":
                ok &= ev.get("case") in v
            elif k == "path_suffix":
                ok &= str(ev.get("path", "")).endswith(v)
            elif k == "paths_contain_suffix":
                ok &= any(str(x).endswith(v) for x in ev.get("paths", []))
            elif k == "bits_below":
                ok &= ev.get("bits", 1 << 30) < v
            elif k == "nonempty":
                ok &= len(ev.get(v, [])) > 0
            else:
                ok &= ev.get(k) == v
        if ok:
            return True
    return False


def cl_validate(path, dev, name):
    rc, out = tlc("Trace_CL", CL_TRACE_CFG % dev, name, workers=1, extra_env={"TRACE": path},
                  java_opts="-Xss512m -Dtlc2.tool.queue.IStateQueue=StateDeque", timeout=3000)
    m = re.search(r'<<"TRACE-REJECTED", "events", (\d+), "matched", (\d+), "first unmatched", "(.*)">>', out)
    if m:
        return False, int(m.group(2)), json.loads(json.loads('"' + m.group(3) + '"'))
    if "Model checking completed. No error has been found." in out:
        return True, None, None
    raise ToolError("TLC failed on CL trace: " + out[-1500:])


def apalache_inv(module, inv, name):
    """check an invariant of spec/apalache/<module>.tla for all values (length 0): 'holds', 'violated' or a tool note"""
    p = sh(["timeout", "600", "apalache-mc", "check", "--init=Init", "--next=Next", "--inv=" + inv, "--length=0",
            "--out-dir=" + os.path.join(BUILD, "apalache_" + name), module + ".tla"], cwd=os.path.join(SPEC, "apalache"), check=False, timeout=700)
    if "The outcome is: NoError" in p.stdout:
        return "holds"
    if "violat" in p.stdout.lower():
        return "violated"
    return "apalache-mc did not complete (tool problem, not counted): " + p.stdout[-200:]


def run_cl_property(prop, tier):
    t0 = time.time()
    spec = CL[prop]
    build_harness(cl=True)
    violations = []
    known = []
    unbounded = None
    if prop == "C16":
        # the tolerance arithmetic for all security parameters and widths (Apalache, SMT)
        r = apalache_inv("BoudotLemmas", "BoudotTolerance", "boudot")
        if r == "violated":
            violations.append({"property": prop, "what": "Apalache: BoudotLemmas!BoudotTolerance is violated (specification level)"})
        unbounded = "BoudotLemmas!BoudotTolerance (tolerance of the repaired range proof below one unit for all E = 2^(t+l), all widths): " + r
    if prop == "C19":
        r = apalache_inv("MaskLemmas", "MaskLemmas", "mask")
        if r == "violated":
            violations.append({"property": prop, "what": "Apalache: MaskLemmas is violated (specification level)"})
        unbounded = "MaskLemmas (floor((r + c x) / c) = x + floor(r / c); r >= K c keeps it K away; r < c reveals x) for all values: " + r
    # --- specification level: the bounded slices of MC_cl.tla
    consts = {"Dev": "{}", "MaxN": 2, "Bound": 60 if tier == "quick" else 230}
    rc, out = tlc("MC_cl", cfg_text(consts, init="Init", invariants=spec["inv"]), "%s_cl_%s" % (prop, tier), workers=1, timeout=3000)
    if "Model checking completed. No error has been found." not in out:
        m = re.search(r"invariant of (\w+) is equal to FALSE|Invariant (\w+) is violated", out)
        if m:
            violations.append({"property": prop, "what": "TLC: invariant %s fails on the specification (intended behaviour)" % (m.group(1) or m.group(2))})
        else:
            raise ToolError("slice MC_cl failed: " + out[-2000:])
    stats = tlc_stats(out)
    # the as-is specification (open findings switched on) exhibits the finding at the specification level
    ofs = open_findings()
    dev_open = "{" + ", ".join('"%s"' % f["deviation"] for f in ofs) + "}"
    spec_level = None
    if ofs:
        rc, o2 = tlc("MC_cl", cfg_text(dict(consts, Dev=dev_open, Bound=12), init="Init", invariants=[i for i in spec["inv"] if i != "ExportDerivs"]), "%s_cl_asis" % prop, workers=1, timeout=3000)
        m = re.search(r"invariant of (\w+) is equal to FALSE|Invariant (\w+) is violated", o2)
        spec_level = (m.group(1) or m.group(2)) if m else None
    ml = re.search(r'<<"MISSING-LINKS", "(.*)">>', out)
    missing_links = json.loads(json.loads('"' + ml.group(1) + '"')) if ml else None
    derivs = os.path.join(BUILD, "cl_derivs_%s.ndjson" % prop)
    with open(derivs, "w") as f:
        for m in re.finditer(r'^<<"CASE", "(.*)">>$', out, re.M):
            f.write(json.loads('"' + m.group(1) + '"') + "\n")
    # --- specification -> implementation: the behaviours of MC_clproto.tla (issuance and presentation as a state
    #     machine, at most MaxDev deviations from the honest protocol) replayed on real keys
    proto = None
    if prop in ("C13", "C14", "C15"):
        pconsts = {"MaxN": 2 if tier == "quick" else 3, "MaxDev": 1 if tier == "quick" else 2}
        rc, o3 = tlc("MC_clproto", cfg_text(pconsts, init="Init", invariants=["C14honest", "C14refuses", "C13unique", "C15asmade", "Export"]),
                     "%s_clproto_%s" % (prop, tier), workers=4, timeout=3000)
        if "Model checking completed. No error has been found." not in o3:
            m = re.search(r"Invariant (\w+) is violated", o3)
            if m:
                violations.append({"property": prop, "what": "TLC: invariant %s of MC_clproto fails (specification level)" % m.group(1)})
            else:
                raise ToolError("slice MC_clproto failed: " + o3[-2000:])
        pstats = tlc_stats(o3)
        # the same invariants with every combination of deviations (specification level only: not exported)
        rc, o4 = tlc("MC_clproto", cfg_text({"MaxN": 3, "MaxDev": 8}, init="Init", invariants=["C14honest", "C14refuses", "C13unique", "C15asmade"]),
                     "%s_clproto_alldev" % prop, workers=4, timeout=3000)
        if "Model checking completed. No error has been found." not in o4:
            m = re.search(r"Invariant (\w+) is violated", o4)
            if m:
                violations.append({"property": prop, "what": "TLC: invariant %s of MC_clproto fails with unrestricted deviations (specification level)" % m.group(1)})
            else:
                raise ToolError("slice MC_clproto (all deviations) failed: " + o4[-2000:])
        alldev_states = tlc_stats(o4)["distinct"]
        pcases = os.path.join(BUILD, "cl_proto_cases_%s_%s.ndjson" % (prop, tier))
        with open(pcases, "w") as f:
            for m in re.finditer(r'^<<"CASE", "(.*)">>$', o3, re.M):
                f.write(json.loads('"' + m.group(1) + '"') + "\n")
        prep = os.path.join(BUILD, "cl_proto_report_%s_%s.json" % (prop, tier))
        sh([ZKVCL, "proto", prep, "--derivs", pcases, "--keys", "2", "--suite", "1024"], env=dict(cl_env(), VERIF_SEED=str(seed())), timeout=14000)
        pr = json.load(open(prep))
        if pr["cases"] == 0:
            raise ToolError("MC_clproto exported no behaviour")
        mine = [mm for mm in pr["mismatches"] if prop in mm["properties"]]
        for mm in mine[:10]:
            violations.append({"property": prop, "what": "decision of %s in a behaviour of MC_clproto (case %d, step %d)" % (mm["op"], mm["case"], mm["step"]),
                               "expected": mm["expected"], "observed": mm["observed"], "steps": mm["steps"], "args": mm["args"]})
        proto = {"constants": pconsts, "states": pstats["distinct"], "states_with_unrestricted_deviations_MaxN3": alldev_states, "behaviours": pr["cases"], "steps": pr["steps"], "decisions_compared": pr["checks"],
                 "calls": pr["ops"], "mismatches": len(mine), "mismatches_other_properties": len(pr["mismatches"]) - len(mine), "sample": pr["sample"]}
    # --- implementation -> specification: driver logs
    suites = [("1024", 2 if tier == "quick" else 4)] + ([("2048", 2)] if tier == "thorough" else [])
    if prop == "C18":
        # the library's key generation at the sizes of the toy model (9-bit safe primes: collisions are likely if p != q is not enforced)
        suites.append(("16", 200 if tier == "quick" else 1000))
    nev = 0
    samples = []
    logs = []
    info = []
    for suite, nkeys in suites:
        for drv in spec["drivers"]:
            if suite == "16" and drv != "keys":
                continue
            raw = os.path.join(BUILD, "cl_%s_%s_%s_%s.ndjson" % (prop, drv, suite, tier))
            cmd = [ZKVCL, drv, raw, "--keys", str(nkeys), "--suite", suite, "--leaf-stride", "13" if tier == "quick" else ("3" if suite == "1024" else "29")]
            if tier == "thorough" and suite == "1024":
                cmd.append("--thorough")
            if drv == "sig" and os.path.getsize(derivs) > 0:
                cmd += ["--derivs", derivs]
            sh(cmd, env=dict(cl_env(), VERIF_SEED=str(seed())), timeout=14000)
            evs = [json.loads(l) for l in open(raw)]
            keep = [e for e in evs if e["op"] in spec["ops"] or ("%s:%s" % (e["op"], e.get("proof"))) in spec["ops"]]
            if not keep:
                raise ToolError("driver %s produced no event for %s" % (drv, prop))
            path = raw.replace(".ndjson", "_sel.ndjson")
            with open(path, "w") as f:
                for e in keep:
                    f.write(json.dumps(e) + "\n")
            nev += len(keep)
            samples += keep[:2]
            info += [e for e in keep if e["op"] == "CLInfoLink"]
            ok, matched, ev0 = cl_validate(path, "{}", "%s_trace_%s_%s" % (prop, drv, suite))
            entry = {"driver": drv, "suite": suite, "events": len(keep), "intended": ok}
            if not ok:
                ok2, matched2, ev2 = cl_validate(path, dev_open, "%s_trace_asis_%s_%s" % (prop, drv, suite)) if ofs else (False, matched, ev0)
                entry["as_is"] = ok2
                if ok2:
                    for f in ofs:
                        hits = [e for e in keep if finding_matches(f, e)]
                        if hits:
                            known.append({"finding": f["id"], "what": f["what"], "events": len(hits), "example": hits[0]})
                else:
                    violations.append({"property": prop, "what": "driver log (%s, CL%s) rejected by the specification at event %d: %s" % (drv, suite, matched2 + 1, json.dumps(ev2)[:300]),
                                       "expected": "the specification's prediction", "observed": json.dumps(ev2)[:200], "trace": path, "event": ev2})
            logs.append(entry)
    seenk = set()
    for kf in known:
        if kf["finding"] in seenk:
            continue
        seenk.add(kf["finding"])
        print("KNOWN-FINDING: property=%s %s: %s" % (prop, kf["finding"], kf["what"]))
    ev = {
        "property_id": prop, "tier": tier, "seed": seed(), "level": "model_checking",
        "coverage": {
            "states": max(stats["distinct"], 1), "transitions": max(stats["states"], 1),
            "traces_validated_against_impl": sum(1 for l in logs if l["intended"] or l.get("as_is")),
            "traces_replayed_into_impl": (proto or {}).get("behaviours", 0),
            "trace_events_validated": nev, "evaluations": nev, "distinct_nontrivial": nev,
            "rule": "one event per observation of the real library (feature cl03): every hidden-position subset, mismatch family, derivation exported by TLC, integer leaf perturbation, interval width / position; the bounded slices of MC_cl.tla are constant-level invariants evaluated by TLC (toy RSA groups, formats, anchoring, mask table)",
            "samples": samples[:4], "logs": logs, "slice_invariants": spec["inv"], "slice_constants": consts,
            "as_is_specification_violates": spec_level, "known_findings_reobserved": known, "exhaustive": False,
            "informational_missing_links_F11": missing_links, "informational_events": info[:6],
            "protocol_behaviours_replayed": proto, "unbounded_lemmas": unbounded,
        },
        "assumptions": ["CL03 runs against a GMP built without assembly (no m4 in the sandbox)",
                        "toy RSA moduli from safe primes below Bound; attribute size 3 bits in the toy model",
                        "keys are generated by the library under test (CL%s)" % "/".join(s for s, _ in suites)],
        "wall_s": round(time.time() - t0, 1), "violations": len(violations),
    }
    return finish(prop, tier, ev, violations, "events=%d known=%d" % (nev, len(seenk)), t0)


# ----------------------------------------------------------------------------
# replay of one recorded violation, and the binding demonstrations
# ----------------------------------------------------------------------------
def replay_one(prop, path):
    v = json.load(open(path))
    build_harness()
    ensure_layouts()
    if "steps" in v and "inst" in v:
        cases = os.path.join(BUILD, "replay_one.ndjson")
        with open(cases, "w") as f:
            f.write(json.dumps(v["steps"]) + "\n")
        rep = os.path.join(BUILD, "replay_one.json")
        sh([ZKV, "replay", cases, rep, "--flip-stride", "1", "--threads", "1", "--chunks", str(v["inst"]["chunk"])],
           env={"ZKV_LAYOUTS": LAYOUTS, "VERIF_SEED": str(v["inst"]["seed"])}, timeout=3000)
        r = json.load(open(rep))
        mm = [m for m in r["mismatches"] if m["property"] == prop]
        if mm:
            print("VIOLATION property=%s replay=%s" % (prop, path))
            print("  reproduced: %s expected=%s observed=%s" % (mm[0]["what"], mm[0]["expected"][:60], mm[0]["observed"][:60]))
            return 1
        print("not reproduced on the current tree: %s" % path)
        return 0
    if prop in CL and "steps" in v and "inst" not in v:
        # a behaviour of MC_clproto: replay it alone on fresh keys
        build_harness(cl=True)
        cases = os.path.join(BUILD, "replay_one_proto.ndjson")
        with open(cases, "w") as f:
            f.write(json.dumps(v["steps"]) + "\n")
        rep = os.path.join(BUILD, "replay_one_proto.json")
        sh([ZKVCL, "proto", rep, "--derivs", cases, "--keys", "2", "--suite", "1024"], env=dict(cl_env(), VERIF_SEED=str(seed())), timeout=3000)
        r = json.load(open(rep))
        mm = [m for m in r["mismatches"] if prop in m["properties"]]
        if mm:
            print("VIOLATION property=%s replay=%s" % (prop, path))
            print("  reproduced: decision of %s expected=%s observed=%s" % (mm[0]["op"], mm[0]["expected"], str(mm[0]["observed"])[:60]))
            return 1
        print("not reproduced on the current tree: %s" % path)
        return 0
    if "trace" in v and os.path.exists(v["trace"]):
        if prop in CL:
            ok, matched, ev = cl_validate(v["trace"], "{}", "replay_trace")
        elif prop == "C07":
            rc, o = tlc("Trace_Rng", RNG_TRACE_CFG, "replay_trace", workers=1, extra_env={"TRACE": v["trace"]},
                        java_opts="-Xss512m -Dtlc2.tool.queue.IStateQueue=StateDeque")
            ok = "No error has been found" in o
            ev = None
        else:
            ok, n, matched, ev, err = validate_trace(v["trace"], "replay_trace")
        if not ok:
            print("VIOLATION property=%s replay=%s" % (prop, path))
            print("  recorded trace still rejected: %s" % json.dumps(ev)[:300])
            return 1
        print("recorded trace accepted by the current specification: %s" % path)
        return 0
    print("replay file has no re-executable content (specification-level finding?): %s" % path)
    return 2


def selftest():
    """binding / non-vacuity demonstrations: every deviation switch makes TLC find the counterexample;
    a corrupted trace and a flipped expectation are rejected"""
    build_harness()
    ensure_layouts()
    ok = True
    def expect_violation(module, consts, invs, inv_name, name, init="MCInit"):
        nonlocal ok
        rc, out = tlc(module, cfg_text(consts, init=init, invariants=invs), "selftest_" + name, timeout=1800)
        hit = ("Invariant %s is violated" % inv_name) in out or ("invariant of %s is equal to FALSE" % inv_name) in out
        print("  [%s] %s with %s: %s" % ("ok" if hit else "FAIL", module, consts.get("Dev"), "counterexample to %s found" % inv_name if hit else "NO counterexample"))
        ok &= hit
    print("deviation switches (the as-is behaviour of the pinned tree violates the property in the model):")
    expect_violation("MC_proof", {"K": 3, "Dev": '{"F1"}', "MechBound": 99, "MaxL": 1, "Rich": "FALSE", "Mode": '"adv"'}, ["C04"], "C04", "F1")
    expect_violation("MC_blind", {"K": 3, "Dev": '{"F12"}', "MechBound": 99, "MaxL": 1, "MaxM": 1, "Mode": '"adv"'}, ["C06"], "C06", "F12")
    expect_violation("MC_codec", {"Dev": '{"F2"}', "MaxN": 1}, ["C08"], "C08", "F2", init="Init")
    expect_violation("MC_codec", {"Dev": '{"F3", "F5"}', "MaxN": 1}, ["C08"], "C08", "F3F5", init="Init")
    expect_violation("MC_codec", {"Dev": '{"F4"}', "MaxN": 1}, ["C09"], "C09", "F4", init="Init")
    expect_violation("MC_codec", {"Dev": '{"F14"}', "MaxN": 1}, ["C08"], "C08", "F14", init="Init")
    for dev, inv in (("F7", "C13toy"), ("F8", "C16anchored"), ("F13", "C16tolerance"), ("F9", "C17noOpenings"), ("F10", "C19masks"), ("F16", "C19masks")):
        expect_violation("MC_cl", {"Dev": '{"%s"}' % dev, "MaxN": 1, "Bound": 12}, [inv], inv, dev, init="Init")
    r = apalache_inv("BoudotLemmas", "AsIsTolerance", "selftest_asis")
    print("  [%s] Apalache, BoudotLemmas!AsIsTolerance (the pinned range-proof parameters, F13): %s" % ("ok" if r == "violated" else "FAIL", r))
    ok &= (r == "violated")
    rc, out = tlc("MC_rng", RNG_CFG % "TRUE", "selftest_rng", workers=4)
    hit = "Invariant Fresh is violated" in out
    print("  [%s] MC_rng with a shared stream: %s" % ("ok" if hit else "FAIL", "Fresh violated" if hit else "NOT violated"))
    ok &= hit
    print("trace binding (Trace_Api):")
    path = os.path.join(BUILD, "selftest_trace.ndjson")
    sh([ZKV, "record", path, "--runs", "1", "--events", "200", "--max-l", "12", "--family", "all"], env={"ZKV_LAYOUTS": LAYOUTS, "VERIF_SEED": "7"})
    evs = [json.loads(l) for l in open(path)]
    good, n, matched, ev, err = validate_trace(path, "selftest_trace")
    print("  [%s] recorded trace of %d events accepted" % ("ok" if good else "FAIL", n))
    ok &= good
    k = [i for i, e in enumerate(evs) if e["op"] in ("Verify", "ProofVerify", "VerifyBlind")][10]
    bad = [dict(e) for e in evs]
    bad[k]["res"] = "Ok" if bad[k]["res"] == "Err" else "Err"
    p2 = path.replace(".ndjson", "_flipped.ndjson")
    open(p2, "w").write("\n".join(json.dumps(e) for e in bad) + "\n")
    g2, n2, m2, ev2, err2 = validate_trace(p2, "selftest_trace_flipped")
    hit = (not g2) and m2 == k
    print("  [%s] result of event %d flipped: rejected at event %s" % ("ok" if hit else "FAIL", k + 1, m2 + 1 if not g2 else "-"))
    ok &= hit
    kk = [i for i, e in enumerate(evs) if e["op"] in ("Sign", "BlindSign") and e["res"] == "Ok"][1]
    p3 = path.replace(".ndjson", "_deleted.ndjson")
    open(p3, "w").write("\n".join(json.dumps(e) for i, e in enumerate(evs) if i != kk) + "\n")
    g3, n3, m3, ev3, err3 = validate_trace(p3, "selftest_trace_deleted")
    print("  [%s] event %d (a producing call) deleted: %s" % ("ok" if not g3 else "FAIL", kk + 1, "rejected at event %d" % (m3 + 1) if not g3 else "ACCEPTED"))
    ok &= (not g3)
    print("replay binding (slice sig):")
    res, cases = run_slice("sig", "quick", "selftest")
    lines = open(cases).read().splitlines()[:200]
    c0 = json.loads(lines[50])
    c0[-1]["res"] = "Ok" if c0[-1]["res"] == "Err" else "Err"
    lines[50] = json.dumps(c0)
    pc = os.path.join(BUILD, "selftest_cases.ndjson")
    open(pc, "w").write("\n".join(lines) + "\n")
    rp = os.path.join(BUILD, "selftest_rep.json")
    sh([ZKV, "replay", pc, rp, "--flip-stride", "0", "--threads", "8"], env={"ZKV_LAYOUTS": LAYOUTS, "VERIF_SEED": "1"})
    r = json.load(open(rp))
    hit = len(r["mismatches"]) >= 1 and all(m["case"] == 50 for m in r["mismatches"])
    print("  [%s] one expected decision flipped: %d mismatch(es), all in that case" % ("ok" if hit else "FAIL", len(r["mismatches"])))
    ok &= hit
    print("replay binding (MC_clproto, CL03):")
    build_harness(cl=True)
    rc, o3 = tlc("MC_clproto", cfg_text({"MaxN": 1, "MaxDev": 1}, init="Init", invariants=["Export"]), "selftest_clproto", workers=2, timeout=600)
    pl = [json.loads('"' + m.group(1) + '"') for m in re.finditer(r'^<<"CASE", "(.*)">>$', o3, re.M)]
    tgt = next(i for i, l in enumerate(pl) if json.loads(l)[-1]["op"] in ("VerifySig", "ProofVerify"))
    c0 = json.loads(pl[tgt])
    c0[-1]["res"] = "false" if c0[-1]["res"] == "true" else "true"
    pl[tgt] = json.dumps(c0)
    pc2 = os.path.join(BUILD, "selftest_clproto.ndjson")
    open(pc2, "w").write("\n".join(pl) + "\n")
    rp2 = os.path.join(BUILD, "selftest_clproto_rep.json")
    sh([ZKVCL, "proto", rp2, "--derivs", pc2, "--keys", "2", "--suite", "1024"], env=dict(cl_env(), VERIF_SEED="1"), timeout=3000)
    r2 = json.load(open(rp2))
    hit = len(r2["mismatches"]) == 1 and r2["mismatches"][0]["case"] == tgt
    print("  [%s] %d behaviours replayed; one expected decision flipped: %d mismatch(es), in that behaviour" % ("ok" if hit else "FAIL", r2["cases"], len(r2["mismatches"])))
    ok &= hit
    print("selftest", "passed" if ok else "FAILED")
    return 0 if ok else 2


def setup():
    build_harness()
    build_harness(cl=True)
    ensure_layouts()
    fx = check_fixtures()
    print("setup ok: fixtures reproduced", fx)
    return 0


def main(argv):
    try:
        if not argv:
            print(__doc__)
            return 2
        if argv[0] == "setup":
            return setup()
        if argv[0] == "selftest":
            return selftest()
        if len(argv) >= 3 and argv[1] == "--replay":
            return replay_one(argv[0], argv[2])
        prop = argv[0]
        if prop not in PROPS:
            print("unknown property", prop)
            return 2
        tier = argv[1] if len(argv) > 1 else os.environ.get("VERIF_TIER", "quick")
        if tier not in ("quick", "thorough"):
            tier = "quick"
        kind = PROPS[prop].get("kind", "api")
        if kind == "codec":
            return run_codec_property(prop, tier)
        if kind == "rng":
            return run_rng_property(prop, tier)
        if kind == "det":
            return run_det_property(prop, tier)
        if kind == "cl":
            return run_cl_property(prop, tier)
        return run_property(prop, tier)
    except ToolError as e:
        print("TOOL-ERROR:", e)
        return 2
