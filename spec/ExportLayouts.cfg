INIT Init
NEXT Next
