----------------------------- MODULE MaskLemmas -----------------------------
(***************************************************************************)
(* The arithmetic behind CL03!MaskTable / MC_cl!C19masks, for all values    *)
(* (Apalache): a response s = r + c x (blinding r, challenge c, secret x).  *)
(*   MaskIdentity  floor(s / c) = x + floor(r / c): what dividing a         *)
(*                 response by the challenge reveals is x up to             *)
(*                 floor(r / c), whatever the sizes                          *)
(*   MaskEnough    a blinding of at least K c keeps floor(s / c) at least   *)
(*                 K away from x (K = 2^64 in property C19)                  *)
(*   MaskLeak      a blinding shorter than the challenge hides nothing:     *)
(*                 floor(s / c) = x exactly (the F10 situation)              *)
(***************************************************************************)
EXTENDS Integers

VARIABLES
  \* @type: Int;
  r,
  \* @type: Int;
  c,
  \* @type: Int;
  x,
  \* @type: Int;
  K

Init == r \in Nat /\ c \in Nat /\ x \in Nat /\ K \in Nat
Next == UNCHANGED << r, c, x, K >>

MaskIdentity == (c >= 1) => ((r + c * x) \div c = x + (r \div c))
MaskEnough == (c >= 1 /\ r >= K * c) => ((r + c * x) \div c - x >= K)
MaskLeak == (c >= 1 /\ r < c) => ((r + c * x) \div c = x)
MaskLemmas == MaskIdentity /\ MaskEnough /\ MaskLeak
=============================================================================
