---------------------------- MODULE BoudotLemmas ----------------------------
(***************************************************************************)
(* The tolerance arithmetic of the Boudot range proof (CL03!BoudotSound)    *)
(* for ALL security parameters and ALL interval widths, discharged          *)
(* symbolically by Apalache (MC_cl!C16tolerance checks toy sizes only).     *)
(*   E  = 2^(t+l), the expansion of the larger-interval proof               *)
(*   w  = b - a >= 1, the width;  P = 2^|w| > w, |w| the bit length of w    *)
(*   TT = 2^T = 4 E^2 P     (T = 2 (t + l + 1) + |w|)                       *)
(*   s  = isqrt(TT w): s^2 <= TT w < (s + 1)^2                              *)
(* Repaired parameters: the larger-interval proofs are run with the bound   *)
(* 2 (s + 1) of the remainders; their tolerance E * 2 (s + 1) must stay     *)
(* below TT, i.e. below one unit of the committed value.                    *)
(* Pinned parameters (F13): bound TT * b with b >= 1: the tolerance is      *)
(* E * TT * b >= TT (AsIsTolerance is NOT an invariant; Apalache finds the  *)
(* counterexample, see ./check selftest).                                   *)
(***************************************************************************)
EXTENDS Integers

VARIABLES
  \* @type: Int;
  E,
  \* @type: Int;
  w,
  \* @type: Int;
  P,
  \* @type: Int;
  s,
  \* @type: Int;
  b

Init == E \in Nat /\ w \in Nat /\ P \in Nat /\ s \in Nat /\ b \in Nat
Next == UNCHANGED << E, w, P, s, b >>

TT == 4 * E * E * P
BoudotTolerance ==
  (E >= 1 /\ w >= 1 /\ P > w /\ s >= 0 /\ s * s <= TT * w /\ TT * w < (s + 1) * (s + 1))
     => 2 * E * (s + 1) < TT
AsIsTolerance == (E >= 1 /\ b >= 1 /\ P >= 1) => E * TT * b < TT
=============================================================================
