------------------------------- MODULE Lemmas -------------------------------
(***************************************************************************)
(* Unbounded arithmetic lemmas behind the count arithmetic of Codec.tla and *)
(* BBS.tla, discharged symbolically by Apalache for ALL naturals (the TLC   *)
(* slices check the same facts on small grids only).                        *)
(*   IndexTranslation  the committed-message index j of a blind proof is    *)
(*                     translated to j + L + 1: under the guards of         *)
(*                     blind_proof_verify the result is a valid slot, lies  *)
(*                     above every signer slot and the blind-factor slot,    *)
(*                     and the translation is injective                      *)
(*   ProofLength       |proof| = 272 + 32 U determines U uniquely, and the   *)
(*                     strict decoder's length rule accepts exactly these    *)
(*   CommitLength      |commitment with proof| = 48 + 32 (M + 2) determines  *)
(*                     M; in-between lengths are explained by no M           *)
(*   UpdateGuards      idx < n < MaxU implies no addition overflows          *)
(*   GeneratorLoop     the inclusive generator loop forms no value > MaxU    *)
(*   NaturalM          the guard U + R1 + R2 >= L + 1 makes                  *)
(*                     M = U + R1 + R2 - 1 - L a natural number and          *)
(*                     L + 1 + M + 1 generators are at most input size + 2   *)
(***************************************************************************)
EXTENDS Integers

VARIABLES
  \* @type: Int;
  U,
  \* @type: Int;
  R1,
  \* @type: Int;
  R2,
  \* @type: Int;
  L,
  \* @type: Int;
  j1,
  \* @type: Int;
  j2,
  \* @type: Int;
  i,
  \* @type: Int;
  len,
  \* @type: Int;
  U2,
  \* @type: Int;
  idx,
  \* @type: Int;
  n,
  \* @type: Int;
  MaxU

Init == /\ U \in Nat /\ R1 \in Nat /\ R2 \in Nat /\ L \in Nat /\ j1 \in Nat /\ j2 \in Nat /\ i \in Nat
        /\ len \in Nat /\ U2 \in Nat /\ idx \in Nat /\ n \in Nat /\ MaxU \in Nat
Next == UNCHANGED << U, R1, R2, L, j1, j2, i, len, U2, idx, n, MaxU >>

Tot == U + R1 + R2
M == Tot - 1 - L

IndexTranslation ==
  (Tot >= L + 1 /\ j1 < M /\ j2 < M /\ i < L) =>
     /\ j1 + L + 1 < Tot                     \* a valid message slot
     /\ j1 + L + 1 > L                       \* above the blind-factor slot L
     /\ j1 + L + 1 > i                       \* above every signer slot
     /\ (j1 # j2 => j1 + L + 1 # j2 + L + 1)

ProofLength ==
  /\ (272 + 32 * U = 272 + 32 * U2) => U = U2
  /\ (len >= 272 /\ (len - 272) % 32 = 0) => (len = 272 + 32 * ((len - 272) \div 32) /\ (len - 272) \div 32 >= 0)
  /\ (len = 272 + 32 * U) => (len >= 272 /\ (len - 272) % 32 = 0)

\* commitment with proof: 48 + 32 (M + 2) octets; the signer derives M from the length
CommitLength ==
  /\ (112 + 32 * U = 112 + 32 * U2) => U = U2
  /\ (len >= 112 /\ (len - 112) % 32 = 0) => (len = 48 + 32 * (((len - 112) \div 32) + 2) /\ (len - 112) \div 32 >= 0)
  /\ (len = 48 + 32 * (U + 2)) => (len >= 112 /\ (len - 112) % 32 = 0 /\ (len - 112) \div 32 = U)
  \* lengths strictly between two valid ones are refused: no other M explains them
  /\ (len >= 112 /\ (len - 112) % 32 # 0) => (len # 48 + 32 * (U + 2))

UpdateGuards == (idx < n /\ n < MaxU) => (idx + 1 <= MaxU /\ n + 1 <= MaxU /\ idx + 1 < n + 1)

NaturalM == (Tot >= L + 1) => (M >= 0 /\ (L + 1) + (M + 1) = Tot + 1)

\* the generator loop runs over the inclusive range 1 .. count with count = n + 1: every value it forms stays
\* within the machine range (the exclusive bound count + 1 of the pinned code did not for n = MaxU - 1: F14)
GeneratorLoop == (n < MaxU /\ i >= 1 /\ i <= n + 1) => i <= MaxU

Lemmas == IndexTranslation /\ ProofLength /\ CommitLength /\ UpdateGuards /\ NaturalM /\ GeneratorLoop
=============================================================================
