------------------------------- MODULE MC_rng -------------------------------
EXTENDS Rng
MCThreads == {1, 2, 3}
MCJobs == [t \in MCThreads |->
             IF t = 1 THEN << [kind |-> "proof", n |-> 1], [kind |-> "commit", n |-> 1] >>
             ELSE IF t = 2 THEN << [kind |-> "commit", n |-> 0], [kind |-> "proof", n |-> 0] >>
             ELSE << [kind |-> "key", n |-> 0], [kind |-> "blind", n |-> 0], [kind |-> "proof", n |-> 0] >>]
=============================================================================
