-------------------------------- MODULE Api --------------------------------
(***************************************************************************)
(* The BBS / Blind BBS API of zkryptium as a state machine.                 *)
(*                                                                          *)
(* State: the key handles that exist and the artefacts (signatures, proofs, *)
(* commitments, crafted proofs) that were produced, each with its           *)
(* PROVENANCE -- the inputs it was made from and what was done to it        *)
(* afterwards -- never with a value.  Values are recomputed on demand, per  *)
(* sample of the toy interpretation, by the *Val operators, which           *)
(* transcribe the code.                                                     *)
(*                                                                          *)
(* Every decision is defined twice:                                         *)
(*   Mech*  mechanically: evaluate the verification equations of BBS.tla    *)
(*          under all K samples (what the code computes);                   *)
(*   Prov*  from provenance alone: "the artefact is intact and the          *)
(*          statement presented is the one it was made for" (what the       *)
(*          listed properties say).                                         *)
(* The invariants C01 .. C06, C11, C12 state Mech = Prov in the two         *)
(* directions (completeness / soundness).  `last` holds the last call with  *)
(* both verdicts; `objs` grows by one artefact per successful producing     *)
(* call.                                                                    *)
(*                                                                          *)
(* Dev is the set of deviation switches that are ON ("as-is" behaviour of   *)
(* the pinned code where it is known to be wrong): F1 = identity points     *)
(* accepted in proofs; F12 = blind_proof_verify accepts a signer-message    *)
(* index >= L (a committed message presented as a signer message).          *)
(***************************************************************************)
EXTENDS BBS, TLC

CONSTANTS Dev,          \* deviation switches that are ON
          MechBound     \* calls whose total message count exceeds this bound are decided at the
                        \* Prov level only (trace validation of large shapes; slices use a large bound)

VARIABLES keys, objs, last

vars == << keys, objs, last >>

\* absent optional arguments (TLC cannot compare values of different shapes, so
\* "absent" is a value of the same shape that no real argument takes)
NoneO == << -1 >>                       \* absent octet string / index list
NoneV == << << -1 >> >>                 \* absent message list
NoneL == -1                             \* absent count
NoBl  == [t |-> "none"]                 \* absent blinding factor
BlOf(h) == [t |-> "of", h |-> h]        \* the blinding factor returned with commitment h
BlOther == [t |-> "other"]              \* some other scalar
CanonO(x) == IF x = NoneO THEN << >> ELSE x
CanonV(x) == IF x = NoneV THEN << >> ELSE x

NObj == Len(objs)

\* unrelated leaf that replaces a tampered field f of artefact h
MutLeaf(k, h, f) == Rnd(k, << 4, h, f >>)
\* j-th random draw of artefact h
Draw(k, h, j) == Rnd(k, << 3, h, j >>)
Draws(k, h, n) == [j \in 1 .. n |-> Draw(k, h, j)]

SeqSet(s) == {s[j] : j \in 1 .. Len(s)}

(***************************************************************************)
(* Artefact records                                                         *)
(*  sig    [kind, key, s, i, hdr, msgs, cm, ups, mut]                       *)
(*           i = "plain" (sign) | "blind" (blind_sign); cm = commitment     *)
(*           handle or 0; ups = <<[s, idx, old, new], ..>> update history;  *)
(*           mut = set of tampered fields: 100 + j = j-th point replaced by *)
(*           another point, 200 + j = j-th point replaced by the identity,  *)
(*           j = j-th scalar of the encoding (signature: 101 = A, 1 = e)    *)
(*  commit [kind, s, cms, mut, dl]   mut as above (101 = C),                *)
(*           dl \in {-1, 0, 1} whole scalars removed / appended              *)
(*  proof  [kind, sig, key, s, i, hdr, ph, msgs, cms, bl, D, mut, dl]       *)
(*           msgs/cms/bl/D = what the prover passed (D = disclosed indexes  *)
(*           into msgs \o <<blind>> \o cms for the blind interface)         *)
(*  craft  [kind, key, s, i, hdr, ph, dp, U, L, pts]  a proof assembled     *)
(*           from public data for a target statement (see CraftVal)         *)
(***************************************************************************)

\* ---------------------------------------------------------------- values
CommitRaw(k, os, h) ==
  LET o == os[h] IN Commit(k, o.s, o.cms, Draws(k, h, Len(o.cms) + 2))

\* scalars of the encoding, after tampering / truncation / extension
CommitScalars(k, os, h) ==
  LET o  == os[h]
      c  == CommitRaw(k, os, h)
      s0 == << c.scap >> \o c.mcap \o << c.c >>
      s1 == [j \in 1 .. Len(s0) |-> IF j \in o.mut THEN MutLeaf(k, h, j) ELSE s0[j]]
  IN  IF o.dl = 0 THEN s1
      ELSE IF o.dl = 1 THEN Append(s1, MutLeaf(k, h, 50))
      ELSE SubSeq(s1, 1, Len(s1) - 1)

CommitDecodable(os, h) == Len(os[h].cms) + 2 + os[h].dl >= 2
CommitVal(k, os, h) ==
  LET o  == os[h]
      sc == CommitScalars(k, os, h)
      n  == Len(sc)
  IN  [C    |-> IF 201 \in o.mut THEN 0 ELSE IF 101 \in o.mut THEN MutLeaf(k, h, 60) ELSE CommitRaw(k, os, h).C,
       scap |-> sc[1], mcap |-> SubSeq(sc, 2, n - 1), c |-> sc[n]]

BlindOf(k, os, bl) ==        \* the secret_prover_blind argument of a call
  IF bl.t = "none" THEN 0
  ELSE IF bl.t = "of" THEN Draw(k, bl.h, 1)
  ELSE MutLeaf(k, 0, 70)

RECURSIVE ApplyUps(_, _, _, _)
ApplyUps(k, B, ups, j) ==
  IF j > Len(ups) THEN B
  ELSE LET u == ups[j]
           a == Api(u.s, "plain")
           H == Gen(k, a, u.idx + 2)
       IN  ApplyUps(k, Ad(Sb(B, Mu(H, MsgSc(k, a, u.old))), Mu(H, MsgSc(k, a, u.new))), ups, j + 1)

SigVal(k, os, h) ==
  LET o    == os[h]
      a    == Api(o.s, o.i)
      sk   == SkOf(k, o.key)
      pk   == PkOf(k, o.key)
      base == IF o.i = "plain"
              THEN CoreSign(k, a, sk, pk, Gens(k, a, Len(o.msgs) + 1), o.hdr, MsgScs(k, a, o.msgs))
              ELSE LET cv == IF o.cm = 0 THEN [C |-> 0, M |-> 0]
                             ELSE LET c == CommitVal(k, os, o.cm) IN [C |-> c.C, M |-> Len(c.mcap)]
                   IN  BlindSign(k, o.s, sk, pk, cv.C, cv.M, o.hdr, MsgScs(k, a, o.msgs))
      ske  == Ad(sk, base.e)
      B    == ApplyUps(k, Mu(base.A, ske), o.ups, 1)
  IN  [ok |-> base.ok,
       A  |-> IF 201 \in o.mut THEN 0 ELSE IF 101 \in o.mut THEN MutLeaf(k, h, 1) ELSE Mu(B, Inv(ske)),
       e  |-> IF 1 \in o.mut THEN MutLeaf(k, h, 2) ELSE base.e]

\* octets_to_signature rejects A = Identity_G1 (F4: the pinned decoder accepts it)
SigDecodable(os, h) == 201 \notin os[h].mut \/ "F4" \in Dev

\* the message-scalar vector and generator list a prover / verifier uses
ProverVec(k, os, o) ==
  LET a == Api(o.s, o.i)
  IN  IF o.i = "plain" THEN MsgScs(k, a, o.msgs)
      ELSE MsgScs(k, a, o.msgs) \o << BlindOf(k, os, o.bl) >> \o MsgScs(k, a, o.cms)
ProverGens(k, o) ==
  IF o.i = "plain" THEN Gens(k, Api(o.s, "plain"), Len(o.msgs) + 1)
  ELSE BlindGens(k, o.s, Len(o.msgs), Len(o.cms))

ProofRaw(k, os, h) ==
  LET o  == os[h]
      ms == ProverVec(k, os, o)
      U  == Len(ms) - Cardinality(o.D)
  IN  CoreProofGen(k, Api(o.s, o.i), PkOf(k, o.key), SigVal(k, os, o.sig), ProverGens(k, o),
                   o.hdr, o.ph, ms, o.D, Draws(k, h, 5 + U))

ProofVal(k, os, h) ==
  LET o  == os[h]
      p  == ProofRaw(k, os, h)
      s0 == << p.ecap, p.r1cap, p.r3cap >> \o p.mcap \o << p.c >>
      s1 == [j \in 1 .. Len(s0) |-> IF j \in o.mut THEN MutLeaf(k, h, j) ELSE s0[j]]
      sc == IF o.dl = 0 THEN s1
            ELSE IF o.dl = 1 THEN Append(s1, MutLeaf(k, h, 50))
            ELSE SubSeq(s1, 1, Len(s1) - 1)
      n  == Len(sc)
  IN  [Abar |-> IF 201 \in o.mut THEN 0 ELSE IF 101 \in o.mut THEN MutLeaf(k, h, 61) ELSE p.Abar,
       Bbar |-> IF 202 \in o.mut THEN 0 ELSE IF 102 \in o.mut THEN MutLeaf(k, h, 62) ELSE p.Bbar,
       D    |-> IF 203 \in o.mut THEN 0 ELSE IF 103 \in o.mut THEN MutLeaf(k, h, 63) ELSE p.D,
       ecap |-> sc[1], r1cap |-> sc[2], r3cap |-> sc[3], mcap |-> SubSeq(sc, 4, n - 1), c |-> sc[n]]
ProofDecodable(os, h) ==
  LET o == os[h]
      U == (IF o.i = "plain" THEN Len(o.msgs) ELSE Len(o.msgs) + 1 + Len(o.cms)) - Cardinality(o.D)
  IN  U + 4 + o.dl >= 4

(***************************************************************************)
(* A proof assembled from public data only (property C04, second half).    *)
(* The attacker targets a statement (key, s, i, hdr, ph, dp, U) and picks   *)
(*   D    = y * Bv   (Bv = the verifier's own P1 + Q1*dom + disclosed part) *)
(*          or the identity or an unrelated public point,                   *)
(*   Abar = identity | z * Bv | unrelated,   Bbar = identity | x * D | ..  *)
(* fixes targets T1* = tau1 * D + sigma * Abar, T2* = tau2 * Bv, computes   *)
(* c = challenge(.., T1*, T2*, ..) and solves the responses with the        *)
(* relations it knows:  e^ = sigma, r1^ = tau1 - x*c, r3^ = (tau2 - c)/y,   *)
(* m^_j = 0.  pts = [A |-> .., B |-> .., D |-> ..] names the choices.       *)
(***************************************************************************)
CraftVal(k, os, h) ==
  LET o    == os[h]
      a    == Api(o.s, o.i)
      pk   == PkOf(k, o.key)
      L    == o.U + Len(o.dp)
      gens == IF o.i = "plain" THEN Gens(k, a, L + 1) ELSE BlindGens(k, o.s, o.L, L - 1 - o.L)
      dom  == Domain(k, a, pk, gens, o.hdr)
      dps  == [j \in 1 .. Len(o.dp) |-> << o.dp[j][1], MsgSc(k, a, o.dp[j][2]) >>]
      RECURSIVE SumD(_)
      SumD(j) == IF j > Len(dps) THEN 0 ELSE Ad(Mu(gens[dps[j][1] + 2], dps[j][2]), SumD(j + 1))
      Bv   == Ad(Ad(P1(k, o.s), Mu(gens[1], dom)), SumD(1))
      y    == MutLeaf(k, h, 91)  x == MutLeaf(k, h, 92)  z == MutLeaf(k, h, 93)
      t1   == MutLeaf(k, h, 94)  t2 == MutLeaf(k, h, 95)  sg == MutLeaf(k, h, 96)
      Dp   == CASE o.pts.D = "id" -> 0 [] o.pts.D = "Bv" -> Bv [] o.pts.D = "yBv" -> Mu(y, Bv)
                [] OTHER -> MutLeaf(k, h, 97)
      yy   == CASE o.pts.D = "Bv" -> 1 [] o.pts.D = "yBv" -> y [] OTHER -> 0
      Ab   == CASE o.pts.A = "id" -> 0 [] o.pts.A = "zBv" -> Mu(z, Bv) [] OTHER -> MutLeaf(k, h, 98)
      xx   == CASE o.pts.B = "xD" -> x [] OTHER -> 0
      Bb   == CASE o.pts.B = "id" -> 0 [] o.pts.B = "xD" -> Mu(x, Dp) [] OTHER -> MutLeaf(k, h, 99)
      T1s  == Ad(Mu(t1, Dp), Mu(sg, Ab))
      T2s  == Mu(t2, Bv)
      c    == Challenge(k, a, dps, Ab, Bb, Dp, T1s, T2s, dom, o.ph)
  IN  [Abar |-> Ab, Bbar |-> Bb, D |-> Dp, ecap |-> sg, r1cap |-> Sb(t1, Mu(xx, c)),
       r3cap |-> IF yy = 0 THEN 0 ELSE Mu(Sb(t2, c), Inv(yy)),
       mcap |-> [j \in 1 .. o.U |-> 0], c |-> c]

\* "lo": a point of E(Fp) outside the prime-order group (e.g. of order 3).  It is no group element:
\* the decoder refuses it, so a proof crafted with it is not decodable (the attacker's arithmetic,
\* Abar = Bbar = T of order 3 with e^ chosen so that (c + e^) mod 3 is what T1* needs, is in craft.rs)
CraftInGroup(o) == o.pts.A # "lo" /\ o.pts.B # "lo" /\ o.pts.D # "lo"
AnyProofVal(k, os, h) == IF os[h].kind = "craft" THEN CraftVal(k, os, h) ELSE ProofVal(k, os, h)

\* ----------------------------------------------------------- provenance
\* formal sum of message terms <<api number, position, message>> of a signature
TermsOf(o) ==
  LET an   == ApiNum(o.s, o.i, FALSE)
      base == {<< an, j - 1, o.msgs[j] >> : j \in 1 .. Len(o.msgs)}      \* positions are distinct: coefficient 1
      RECURSIVE Coef(_, _)
      Coef(t, j) == IF j > Len(o.ups) THEN 0
                    ELSE LET u == o.ups[j]
                             n == ApiNum(u.s, "plain", FALSE)
                         IN  (IF t = << n, u.idx, u.new >> THEN 1 ELSE 0)
                             - (IF t = << n, u.idx, u.old >> THEN 1 ELSE 0) + Coef(t, j + 1)
      upd  == {<< ApiNum(o.ups[j].s, "plain", FALSE), o.ups[j].idx, o.ups[j].old >> : j \in 1 .. Len(o.ups)}
              \cup {<< ApiNum(o.ups[j].s, "plain", FALSE), o.ups[j].idx, o.ups[j].new >> : j \in 1 .. Len(o.ups)}
      tot(t) == (IF t \in base THEN 1 ELSE 0) + Coef(t, 1)
  IN  IF o.ups = << >> THEN {<< t, 1 >> : t \in base}
      ELSE {<< t, 1 >> : t \in base \ upd} \cup {<< t, tot(t) >> : t \in {u \in upd : tot(u) # 0}}

TermsFor(s, i, msgs) == {<< << ApiNum(s, i, FALSE), j - 1, msgs[j] >>, 1 >> : j \in 1 .. Len(msgs)}

\* the signature artefact h is a genuine signature of key under (s, i) on hdr, msgs
\* [and, blind interface, on the committed messages cms with blinding argument bl]
SigGoodFor(os, h, key, s, i, hdr, msgs, cms, bl) ==
  LET o == os[h] IN
  /\ o.kind = "sig" /\ o.mut = {}
  /\ o.key = key /\ o.s = s /\ o.i = i /\ o.hdr = hdr
  /\ Len(o.msgs) = Len(msgs)
  /\ TermsOf(o) = TermsFor(s, i, msgs)
  /\ IF i = "plain" THEN cms = << >> /\ bl.t = "none"
     ELSE IF o.cm = 0 THEN cms = << >> /\ bl.t = "none"
     ELSE /\ os[o.cm].cms = cms /\ bl = BlOf(o.cm)

CommitGood(os, h, s) == os[h].kind = "commit" /\ os[h].mut = {} /\ os[h].dl = 0 /\ os[h].s = s

\* the (index, message) pairs a verifier's lists denote, as the code pairs them:
\* indexes sorted and de-duplicated, messages in the order given
Pairs(didx, dmsgs) ==
  LET ix == SortSet(SeqSet(didx))
  IN  [j \in 1 .. Len(ix) |-> << ix[j], dmsgs[j] >>]

\* the proof artefact h proves exactly: key, (s, i), hdr, ph and disclosed pairs dp
\* (indexes into the prover's full vector), with U undisclosed
ProofGoodFor(os, h, key, s, i, hdr, ph, dp, Lsig) ==
  LET o == os[h] IN
  /\ o.kind = "proof" /\ o.mut = {} /\ o.dl = 0
  /\ o.key = key /\ o.s = s /\ o.i = i /\ o.hdr = hdr /\ o.ph = ph
  /\ SigGoodFor(os, o.sig, o.key, o.s, o.i, o.hdr, o.msgs, o.cms, o.bl)
  /\ (i = "blind" => Lsig = Len(o.msgs))
  /\ LET full == IF i = "plain" THEN o.msgs ELSE o.msgs \o << "blind" >> \o o.cms
     IN  /\ \A j \in 1 .. Len(dp) : dp[j][1] \in o.D
         /\ Len(dp) = Cardinality(o.D)
         /\ \A j \in 1 .. Len(dp) : dp[j][2] = full[dp[j][1] + 1]
         /\ \A j \in 1 .. Len(dp) - 1 : dp[j][1] < dp[j + 1][1]

\* ---------------------------------------------------------------- actions
Rec(op, args, mech, prov, out) == [op |-> op, args |-> args, res |-> mech, prov |-> prov, out |-> out]
Small(n) == n <= MechBound
B2R(b) == IF b THEN "Ok" ELSE "Err"
AllS(P(_)) == \A k \in Samples : P(k)

KeyGen(key) ==
  /\ key \notin keys
  /\ keys' = keys \cup {key}
  /\ last' = Rec("KeyGen", [key |-> key], "Ok", "Ok", 0)
  /\ UNCHANGED objs

\* Signature::sign(messages, sk, pk, header)
Sign(key, s, hdr, msgs) ==
  /\ key \in keys
  /\ LET o  == [kind |-> "sig", key |-> key, s |-> s, i |-> "plain", hdr |-> CanonO(hdr),
                msgs |-> CanonV(msgs), cm |-> 0, ups |-> << >>, mut |-> {}]
         os == Append(objs, o)
         ok == Small(Len(CanonV(msgs))) => AllS(LAMBDA k : SigVal(k, os, NObj + 1).ok)
     IN  /\ objs' = IF ok THEN os ELSE objs
         /\ last' = Rec("Sign", [key |-> key, s |-> s, hdr |-> hdr, msgs |-> msgs], B2R(ok), "Ok", NObj + 1)
  /\ UNCHANGED keys

\* Signature::verify(pk, messages, header) through the plain interface of suite s
Verify(h, key, s, hdr, msgs) ==
  /\ h \in 1 .. NObj /\ objs[h].kind = "sig" /\ key \in keys
  /\ LET a    == Api(s, "plain")
         mech == /\ SigDecodable(objs, h)
                 /\ AllS(LAMBDA k : CoreVerify(k, a, PkOf(k, key), SigVal(k, objs, h),
                                            Gens(k, a, Len(CanonV(msgs)) + 1), CanonO(hdr), MsgScs(k, a, CanonV(msgs))))
         prov == SigGoodFor(objs, h, key, s, "plain", CanonO(hdr), CanonV(msgs), << >>, NoBl)
     IN  last' = Rec("Verify", [sig |-> h, key |-> key, s |-> s, hdr |-> hdr, msgs |-> msgs],
                     IF Small(Len(CanonV(msgs)) + Len(objs[h].msgs)) THEN B2R(mech) ELSE B2R(prov), B2R(prov), 0)
  /\ UNCHANGED << keys, objs >>

\* to_bytes / from_bytes round trip of an artefact: the same artefact comes back
\* (a tampered artefact may no longer decode: whole scalars removed below the minimum, identity points)
Decodable(os, h) ==
  CASE os[h].kind = "sig"    -> SigDecodable(os, h)
    [] os[h].kind = "proof"  -> ProofDecodable(os, h) /\ (("F1" \in Dev) \/ os[h].mut \cap {201, 202, 203} = {})
    [] os[h].kind = "commit" -> CommitDecodable(os, h)
    [] OTHER                 -> TRUE
RoundTrip(h) ==
  /\ h \in 1 .. NObj
  /\ last' = Rec("RoundTrip", [obj |-> h], B2R(Decodable(objs, h)), B2R(Decodable(objs, h)), h)
  /\ UNCHANGED << keys, objs >>

\* an attacker replaces field(s) of an encoded artefact by other well-formed values
\* (what a bit flip that still decodes does), or removes / appends whole scalars
Tamper(h, fields, dl) ==
  /\ h \in 1 .. NObj /\ objs[h].kind \in {"sig", "proof", "commit"}
  /\ objs[h].kind = "sig" => dl = 0
  /\ objs' = Append(objs, IF objs[h].kind = "sig" THEN [objs[h] EXCEPT !.mut = @ \cup fields]
                          ELSE [objs[h] EXCEPT !.mut = @ \cup fields, !.dl = dl])
  /\ last' = Rec("Tamper", [obj |-> h, fields |-> fields, dl |-> dl], "Ok", "Ok", NObj + 1)
  /\ UNCHANGED keys

\* Signature::update_signature(sk, old, new, update_index, n) called through suite s
Update(h, key, s, old, new, idx, n) ==
  /\ h \in 1 .. NObj /\ objs[h].kind = "sig" /\ objs[h].mut = {} /\ key \in keys
  /\ LET ok == idx < n
         o  == [objs[h] EXCEPT !.ups = Append(@, [s |-> s, idx |-> idx, old |-> old, new |-> new])]
     IN  /\ objs' = IF ok THEN Append(objs, o) ELSE objs
         /\ last' = Rec("Update", [sig |-> h, key |-> key, s |-> s, old |-> old, new |-> new, idx |-> idx, n |-> n],
                        B2R(ok), B2R(ok), NObj + 1)
  /\ UNCHANGED keys

\* PoKSignature::proof_gen(pk, signature, header, ph, messages, disclosed_indexes)
ProofGen(h, key, s, hdr, ph, msgs, didx) ==
  /\ h \in 1 .. NObj /\ objs[h].kind = "sig" /\ key \in keys
  /\ LET ms == CanonV(msgs)
         D  == SeqSet(CanonO(didx))
         ok == \A i \in D : i < Len(ms)
         o  == [kind |-> "proof", sig |-> h, key |-> key, s |-> s, i |-> "plain", hdr |-> CanonO(hdr),
                ph |-> CanonO(ph), msgs |-> ms, cms |-> << >>, bl |-> NoBl, D |-> D, mut |-> {}, dl |-> 0]
     IN  /\ objs' = IF ok THEN Append(objs, o) ELSE objs
         /\ last' = Rec("ProofGen", [sig |-> h, key |-> key, s |-> s, hdr |-> hdr, ph |-> ph, msgs |-> msgs, didx |-> didx],
                        B2R(ok), B2R(ok), NObj + 1)
  /\ UNCHANGED keys

IdentRule == "F1" \notin Dev

\* PoKSignature::proof_verify(pk, disclosed_messages, disclosed_indexes, header, ph)
ProofVerify(h, key, s, hdr, ph, dmsgs, didx) ==
  /\ h \in 1 .. NObj /\ objs[h].kind \in {"proof", "craft"} /\ key \in keys
  /\ LET a   == Api(s, "plain")
         dm  == CanonV(dmsgs)
         ix  == SortSet(SeqSet(CanonO(didx)))
         dec == (objs[h].kind = "craft" /\ CraftInGroup(objs[h])) \/ (objs[h].kind # "craft" /\ ProofDecodable(objs, h))
         lenok == Len(dm) = Len(ix)
         mech == /\ dec /\ lenok
                 /\ AllS(LAMBDA k :
                      LET p == AnyProofVal(k, objs, h)
                          L == Len(p.mcap) + Len(ix)
                      IN  CoreProofVerify(k, a, PkOf(k, key), p, Gens(k, a, L + 1), CanonO(hdr), CanonO(ph),
                                          [j \in 1 .. Len(ix) |-> << ix[j], MsgSc(k, a, dm[j]) >>], IdentRule))
         prov == /\ lenok
                 /\ ProofGoodFor(objs, h, key, s, "plain", CanonO(hdr), CanonO(ph), Pairs(CanonO(didx), dm), 0)
         size == Len(dm) + (IF objs[h].kind = "proof" THEN Len(objs[h].msgs) + Len(objs[h].cms) ELSE 0)
     IN  last' = Rec("ProofVerify", [proof |-> h, key |-> key, s |-> s, hdr |-> hdr, ph |-> ph, dmsgs |-> dmsgs, didx |-> didx],
                     IF Small(size) THEN B2R(mech) ELSE B2R(prov), B2R(prov), 0)
  /\ UNCHANGED << keys, objs >>

\* the attacker assembles a proof from public data for a statement of its choice
Craft(key, s, i, hdr, ph, dp, U, L, pts) ==
  /\ key \in keys
  /\ objs' = Append(objs, [kind |-> "craft", key |-> key, s |-> s, i |-> i, hdr |-> hdr, ph |-> ph,
                            dp |-> dp, U |-> U, L |-> L, pts |-> pts])
  /\ last' = Rec("Craft", [key |-> key, s |-> s, i |-> i, hdr |-> hdr, ph |-> ph, dp |-> dp, U |-> U, L |-> L, pts |-> pts],
                 "Ok", "Ok", NObj + 1)
  /\ UNCHANGED keys

\* ---------------------------------------------------------------- blind interface
\* Commitment::commit(committed_messages)
CommitA(s, cms) ==
  /\ objs' = Append(objs, [kind |-> "commit", s |-> s, cms |-> CanonV(cms), mut |-> {}, dl |-> 0])
  /\ last' = Rec("Commit", [s |-> s, cms |-> cms], "Ok", "Ok", NObj + 1)
  /\ UNCHANGED keys

\* BlindSignature::blind_sign(sk, pk, commitment_with_proof, header, messages); cm = 0: no commitment
BlindSignA(key, s, cm, hdr, msgs) ==
  /\ key \in keys
  /\ cm # 0 => (cm \in 1 .. NObj /\ objs[cm].kind = "commit")
  /\ LET o    == [kind |-> "sig", key |-> key, s |-> s, i |-> "blind", hdr |-> CanonO(hdr),
                  msgs |-> CanonV(msgs), cm |-> cm, ups |-> << >>, mut |-> {}]
         os   == Append(objs, o)
         cok  == cm = 0 \/ (CommitDecodable(objs, cm) /\ AllS(LAMBDA k : CommitVerify(k, s, CommitVal(k, objs, cm))))
         mech == cok /\ AllS(LAMBDA k : SigVal(k, os, NObj + 1).ok)
         prov == cm = 0 \/ CommitGood(objs, cm, s)
         res  == IF Small(Len(CanonV(msgs)) + (IF cm = 0 THEN 0 ELSE Len(objs[cm].cms))) THEN mech ELSE prov
     IN  /\ objs' = IF res THEN os ELSE objs
         /\ last' = Rec("BlindSign", [key |-> key, s |-> s, cm |-> cm, hdr |-> hdr, msgs |-> msgs], B2R(res), B2R(prov), NObj + 1)
  /\ UNCHANGED keys

\* BlindSignature::verify_blind_sign(pk, header, messages, committed_messages, secret_prover_blind)
VerifyBlind(h, key, s, hdr, msgs, cms, bl) ==
  /\ h \in 1 .. NObj /\ objs[h].kind = "sig" /\ key \in keys
  /\ LET a    == Api(s, "blind")
         mech == /\ SigDecodable(objs, h)
                 /\ AllS(LAMBDA k : BlindVerify(k, s, PkOf(k, key), SigVal(k, objs, h), CanonO(hdr),
                                             MsgScs(k, a, CanonV(msgs)), BlindOf(k, objs, bl), MsgScs(k, a, CanonV(cms))))
         prov == SigGoodFor(objs, h, key, s, "blind", CanonO(hdr), CanonV(msgs), CanonV(cms), bl)
     IN  last' = Rec("VerifyBlind", [sig |-> h, key |-> key, s |-> s, hdr |-> hdr, msgs |-> msgs, cms |-> cms, bl |-> bl],
                     IF Small(Len(CanonV(msgs)) + Len(CanonV(cms)) + Len(objs[h].msgs)) THEN B2R(mech) ELSE B2R(prov), B2R(prov), 0)
  /\ UNCHANGED << keys, objs >>

\* PoKSignature::blind_proof_gen(pk, signature, header, ph, messages, committed_messages,
\*                               disclosed_indexes, disclosed_commitment_indexes, secret_prover_blind)
BlindProofGen(h, key, s, hdr, ph, msgs, cms, didx, dcidx, bl) ==
  /\ h \in 1 .. NObj /\ objs[h].kind = "sig" /\ key \in keys
  /\ LET ms == CanonV(msgs)
         cs == CanonV(cms)
         L  == Len(ms)
         M  == Len(cs)
         ok == /\ Len(CanonO(didx)) <= L /\ \A i \in SeqSet(CanonO(didx)) : i < L
               /\ Len(CanonO(dcidx)) <= M /\ \A j \in SeqSet(CanonO(dcidx)) : j < M
         D  == SeqSet(CanonO(didx)) \cup {j + L + 1 : j \in SeqSet(CanonO(dcidx))}
         o  == [kind |-> "proof", sig |-> h, key |-> key, s |-> s, i |-> "blind", hdr |-> CanonO(hdr),
                ph |-> CanonO(ph), msgs |-> ms, cms |-> cs, bl |-> bl, D |-> D, mut |-> {}, dl |-> 0]
     IN  /\ objs' = IF ok THEN Append(objs, o) ELSE objs
         /\ last' = Rec("BlindProofGen", [sig |-> h, key |-> key, s |-> s, hdr |-> hdr, ph |-> ph, msgs |-> msgs, cms |-> cms,
                                           didx |-> didx, dcidx |-> dcidx, bl |-> bl], B2R(ok), B2R(ok), NObj + 1)
  /\ UNCHANGED keys

\* PoKSignature::blind_proof_verify(pk, header, ph, L, disclosed_messages, disclosed_committed_messages,
\*                                  disclosed_indexes, disclosed_commitment_indexes)
\* count arithmetic in the naturals with explicit guards (deviations F3 / F5 are modelled in Codec.tla)
BlindProofVerify(h, key, s, hdr, ph, Lraw, dmsgs, dcmsgs, didx, dcidx) ==
  /\ h \in 1 .. NObj /\ objs[h].kind \in {"proof", "craft"} /\ key \in keys
  /\ LET a   == Api(s, "blind")
         L   == IF Lraw = NoneL THEN 0 ELSE Lraw
         dm  == CanonV(dmsgs) \o CanonV(dcmsgs)
         ix1 == SortSet(SeqSet(CanonO(didx)))
         ix2 == SortSet(SeqSet(CanonO(dcidx)))
         ix  == ix1 \o [j \in 1 .. Len(ix2) |-> ix2[j] + L + 1]
         dec == (objs[h].kind = "craft" /\ CraftInGroup(objs[h])) \/ (objs[h].kind # "craft" /\ ProofDecodable(objs, h))
         mech == /\ dec
                 /\ Len(dm) = Len(ix)
                 \* F12: the pinned code does not require signer indexes to be below L
                 /\ ("F12" \in Dev \/ \A j \in 1 .. Len(ix1) : ix1[j] < L)
                 /\ AllS(LAMBDA k :
                      LET p   == AnyProofVal(k, objs, h)
                          tot == Len(p.mcap) + Len(ix)
                      IN  /\ tot >= L + 1
                          /\ CoreProofVerify(k, a, PkOf(k, key), p, BlindGens(k, s, L, tot - 1 - L), CanonO(hdr), CanonO(ph),
                                             [j \in 1 .. Len(ix) |-> << ix[j], MsgSc(k, a, dm[j]) >>], IdentRule))
         prov == /\ Len(dm) = Len(ix)
                 /\ Len(CanonV(dmsgs)) = Len(ix1)
                 /\ \A j \in 1 .. Len(ix1) : ix1[j] < L
                 /\ \A j \in 1 .. Len(ix) - 1 : ix[j] < ix[j + 1]
                 /\ ProofGoodFor(objs, h, key, s, "blind", CanonO(hdr), CanonO(ph),
                                 [j \in 1 .. Len(ix) |-> << ix[j], dm[j] >>], L)
     IN  last' = Rec("BlindProofVerify", [proof |-> h, key |-> key, s |-> s, hdr |-> hdr, ph |-> ph, L |-> Lraw,
                                           dmsgs |-> dmsgs, dcmsgs |-> dcmsgs, didx |-> didx, dcidx |-> dcidx],
                     IF Small(Len(dm) + (IF objs[h].kind = "proof" THEN Len(objs[h].msgs) + Len(objs[h].cms) ELSE 0)) THEN B2R(mech) ELSE B2R(prov),
                     B2R(prov), 0)
  /\ UNCHANGED << keys, objs >>

Init == /\ keys = {} /\ objs = << >> /\ last = Rec("Init", [x |-> 0], "Ok", "Ok", 0)

(***************************************************************************)
(* The listed properties, as invariants over the last call.                 *)
(***************************************************************************)
Producing == {"Sign", "BlindSign", "ProofGen", "BlindProofGen", "Commit"}
Deciding  == {"Verify", "VerifyBlind", "ProofVerify", "BlindProofVerify"}

\* completeness: whatever the provenance says must be accepted is accepted
C01 == last.op \in {"Sign", "Verify", "RoundTrip"} /\ last.prov = "Ok" => last.res = "Ok"
C03 == last.op \in {"ProofGen", "ProofVerify"} /\ last.prov = "Ok" => last.res = "Ok"
C05 == last.op \in {"Commit", "BlindSign", "VerifyBlind", "BlindProofGen", "BlindProofVerify"} /\ last.prov = "Ok" => last.res = "Ok"
\* soundness / binding: nothing else is accepted
C02 == last.op = "Verify" /\ last.res = "Ok" => last.prov = "Ok"
C04 == last.op = "ProofVerify" /\ last.res = "Ok" => last.prov = "Ok"
C06 == last.op \in {"BlindSign", "VerifyBlind", "BlindProofVerify"} /\ last.res = "Ok" => last.prov = "Ok"
\* signature update over any history
C12 == last.op = "Update" => last.res = last.prov
\* refinement: the two levels agree on every decision
Refines == last.res = last.prov
=============================================================================
