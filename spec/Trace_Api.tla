----------------------------- MODULE Trace_Api ------------------------------
(***************************************************************************)
(* Trace validation (DESIGN 3.4): a trace recorded from the real library    *)
(* (one JSON object per public call: op, args, res, out, obs) is accepted   *)
(* iff it is a behaviour of Api.tla.  Every logged field is bound, so the   *)
(* search is linear in the length of the trace.  All Api invariants are     *)
(* evaluated at every step.                                                 *)
(*                                                                          *)
(* Calls whose total message count is at most MechBound are decided          *)
(* mechanically (toy interpretation) AND from provenance (they must agree:  *)
(* invariant Refines); larger calls are decided from provenance only.       *)
(* "Reset" starts a new run inside the same file (amortises JVM start-up).  *)
(***************************************************************************)
EXTENDS Api, Json, IOUtils

VARIABLE l                     \* index of the next event to consume

tvars == << keys, objs, last, l >>

Log == ndJsonDeserialize(IOEnv.TRACE)
Ev  == Log[l]
A   == Ev.args

IsEv(op) == l <= Len(Log) /\ Ev.op = op /\ l' = l + 1
\* the decision and the handle the library produced are the ones the specification predicts
Matches == /\ last'.res = Ev.res /\ (Ev.res = "Ok" => last'.out = Ev.out)
           \* events derived from the repository's fixtures also carry the vector's own verdict
           /\ ("fixture" \in DOMAIN Ev.obs => Ev.obs.fixture = TRUE)

TReset == /\ IsEv("Reset")
          /\ keys' = {} /\ objs' = << >> /\ last' = Rec("Reset", [x |-> 0], "Ok", "Ok", 0)

TKeyGen   == IsEv("KeyGen") /\ KeyGen(A.key) /\ Ev.res = "Ok"
TSign     == IsEv("Sign") /\ Sign(A.key, A.s, A.hdr, A.msgs) /\ Matches
TVerify   == IsEv("Verify") /\ Verify(A.sig, A.key, A.s, A.hdr, A.msgs) /\ Matches
TRound    == IsEv("RoundTrip") /\ RoundTrip(A.obj) /\ last'.res = Ev.res /\ (Ev.res = "Ok" => Ev.obs.same = TRUE)
TTamper   == IsEv("Tamper") /\ Tamper(A.obj, {A.fields[j] : j \in 1 .. Len(A.fields)}, A.dl) /\ Matches
TUpdate   == IsEv("Update") /\ Update(A.sig, A.key, A.s, A.old, A.new, A.idx, A.n) /\ Matches
TProofGen == /\ IsEv("ProofGen") /\ ProofGen(A.sig, A.key, A.s, A.hdr, A.ph, A.msgs, A.didx) /\ Matches
             \* |proof| = 272 + 32 * U, a function of the number of undisclosed messages only
             /\ Ev.res = "Ok" => Ev.obs.len = 272 + 32 * (Len(CanonV(A.msgs)) - Cardinality(SeqSet(CanonO(A.didx))))
TProofVer == IsEv("ProofVerify") /\ ProofVerify(A.proof, A.key, A.s, A.hdr, A.ph, A.dmsgs, A.didx) /\ Matches
TCommit   == /\ IsEv("Commit") /\ CommitA(A.s, A.cms) /\ Matches
             /\ Ev.res = "Ok" => Ev.obs.len = 48 + 32 * (Len(CanonV(A.cms)) + 2)
TBlindSig == IsEv("BlindSign") /\ BlindSignA(A.key, A.s, A.cm, A.hdr, A.msgs) /\ Matches
TBlindVer == IsEv("VerifyBlind") /\ VerifyBlind(A.sig, A.key, A.s, A.hdr, A.msgs, A.cms, A.bl) /\ Matches
TBProofGen == /\ IsEv("BlindProofGen")
              /\ BlindProofGen(A.sig, A.key, A.s, A.hdr, A.ph, A.msgs, A.cms, A.didx, A.dcidx, A.bl) /\ Matches
              /\ Ev.res = "Ok" => Ev.obs.len = 272 + 32 * (Len(CanonV(A.msgs)) + 1 + Len(CanonV(A.cms))
                                            - Cardinality(SeqSet(CanonO(A.didx))) - Cardinality(SeqSet(CanonO(A.dcidx))))
TBProofVer == /\ IsEv("BlindProofVerify")
              /\ BlindProofVerify(A.proof, A.key, A.s, A.hdr, A.ph, A.L, A.dmsgs, A.dcmsgs, A.didx, A.dcidx) /\ Matches

TraceInit == Init /\ l = 1
TraceNext == \/ TReset \/ TKeyGen \/ TSign \/ TVerify \/ TRound \/ TTamper \/ TUpdate \/ TProofGen \/ TProofVer
             \/ TCommit \/ TBlindSig \/ TBlindVer \/ TBProofGen \/ TBProofVer
TraceSpec == TraceInit /\ [][TraceNext]_tvars

\* acceptance: every event was consumed (one state per event plus the initial state)
TraceAccepted ==
  LET d == TLCGet("stats").diameter IN
  IF d - 1 = Len(Log) THEN TRUE
  ELSE Print(<< "TRACE-REJECTED", "events", Len(Log), "matched", d - 1, "first unmatched", ToJson(Log[d]) >>, FALSE)
=============================================================================
