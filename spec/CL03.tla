-------------------------------- MODULE CL03 --------------------------------
(***************************************************************************)
(* CL2003 signatures, the blind-issuance and signature proofs of knowledge  *)
(* and the Boudot range proof as zkryptium implements them (src/cl03).      *)
(*                                                                          *)
(*  Part 1  toy RSA groups: sign / verify / the attacker's exact            *)
(*          derivations, evaluated numerically (property C13)               *)
(*  Part 2  message formats: the integer leaves each proof carries, as a    *)
(*          function of (n, U, trusted) (properties C15, C17)               *)
(*  Part 3  the verifiers as constraint sets over those leaves: which leaf  *)
(*          is USED (altering it is detected) and which sub-proof           *)
(*          statement is ANCHORED to a value the verifier recomputes        *)
(*          (properties C14, C15, C16)                                      *)
(*  Part 4  the table of blinding lengths of every response (C19)           *)
(*  Part 5  well-formedness of keys on toy moduli (C18)                     *)
(*                                                                          *)
(* Deviation switches (Dev): F6 per-attribute commitment with base a_0,     *)
(* F7 no attribute range check, F8 proofs of square not tied to E_a1/E_b1,  *)
(* F9 commitments serialised with their randomness, F10 short blindings,    *)
(* F16 short blinding of the square roots inside the range proofs.          *)
(***************************************************************************)
EXTENDS Integers, Sequences, FiniteSets

CONSTANT Dev

(***************************************************************************)
(* Part 1: toy RSA groups                                                   *)
(***************************************************************************)
RECURSIVE PowM(_, _, _)
PowM(b, e, n) == IF e = 0 THEN 1 % n
                 ELSE LET h == PowM(b, e \div 2, n) hh == (h * h) % n
                      IN  IF e % 2 = 1 THEN (hh * (b % n)) % n ELSE hh
\* modular inverse by the extended Euclidean algorithm: EE(a, b) = <<g, u>> with a*u = g (mod b)
RECURSIVE EE(_, _)
EE(a, b) == IF b = 0 THEN << a, 1, 0 >>
            ELSE LET r == EE(b, a % b) IN << r[1], r[3], r[2] - (a \div b) * r[3] >>
InvM(a, n) == LET r == EE(a % n, n) IN ((r[2] % n) + n) % n
PowS(b, e, n) == IF e >= 0 THEN PowM(b, e, n) ELSE PowM(InvM(b % n, n), 0 - e, n)

\* special RSA moduli from safe primes p = 2p' + 1, q = 2q' + 1
ToyKeys == { [p |-> 59, q |-> 83], [p |-> 83, q |-> 107], [p |-> 107, q |-> 167] }
Nof(k) == k.p * k.q
Phi(k) == (k.p - 1) * (k.q - 1)
\* public elements: quadratic residues (squares of small numbers)
Bof(k) == (5 * 5) % Nof(k)
Cof(k) == (7 * 7) % Nof(k)
Aof(k, i) == ((2 + i) * (2 + i) * 9) % Nof(k)            \* a_0, a_1, ...

\* toy parameters: lm = 3 (attributes 0 .. 7), le = lm + 2 = 5 (e prime in (16, 32))
ToyLm == 3
ToyLe == 5
RECURSIVE Pow2(_)
Pow2(n) == IF n = 0 THEN 1 ELSE 2 * Pow2(n - 1)
RECURSIVE Gcd(_, _)
Gcd(a, b) == IF b = 0 THEN a ELSE Gcd(b, a % b)
ToyEs(k) == {e \in {17, 19, 23, 29, 31} : Gcd(e, Phi(k)) = 1}

RECURSIVE ProdA(_, _, _)
ProdA(k, ms, i) == IF i > Len(ms) THEN 1 ELSE (PowS(Aof(k, i - 1), ms[i], Nof(k)) * ProdA(k, ms, i + 1)) % Nof(k)

\* sign_multiattr: v = (prod a_i^m_i * b^s * c)^(1/e) mod N
SignToy(k, ms, e, s) ==
  LET d == InvM(e % Phi(k), Phi(k))
      t == (((ProdA(k, ms, 1) * PowM(Bof(k), s, Nof(k))) % Nof(k)) * Cof(k)) % Nof(k)
  IN  [e |-> e, s |-> s, v |-> PowM(t, d, Nof(k))]

\* verify_multiattr: equation, range of e, range of every attribute (F7: no attribute range check)
VerifyToy(k, sig, ms) ==
  /\ sig.e > Pow2(ToyLe - 1) /\ sig.e < Pow2(ToyLe)
  /\ ("F7" \in Dev \/ \A i \in 1 .. Len(ms) : ms[i] >= 0 /\ ms[i] < Pow2(ToyLm))
  /\ PowM(sig.v, sig.e, Nof(k)) =
       (((ProdA(k, ms, 1) * PowS(Bof(k), sig.s, Nof(k))) % Nof(k)) * Cof(k)) % Nof(k)

\* what anyone can derive from (sig, ms) without the secret key:
\*   v' = v * prod a_i^alpha_i * b^beta,  m'_i = m_i + alpha_i * e,  s' = s + beta * e
RECURSIVE ProdAlpha(_, _, _)
ProdAlpha(k, al, i) == IF i > Len(al) THEN 1 ELSE (PowS(Aof(k, i - 1), al[i], Nof(k)) * ProdAlpha(k, al, i + 1)) % Nof(k)
Derive(k, sig, ms, al, be) ==
  [sig |-> [e |-> sig.e, s |-> sig.s + be * sig.e,
            v |-> (((sig.v * ProdAlpha(k, al, 1)) % Nof(k)) * PowS(Bof(k), be, Nof(k))) % Nof(k)],
   ms  |-> [i \in 1 .. Len(ms) |-> ms[i] + al[i] * sig.e]]

(***************************************************************************)
(* Part 2: message formats (integer leaves, vector positions written "*")   *)
(***************************************************************************)
Pre(p, S) == {p \o "/" \o x : x \in S}
RangeLeaves ==
  {"E", "E_prime"} \cup Pre("proof_of_tolerance",
     {"E_a_1", "E_a_2", "E_b_1", "E_b_2"}
     \cup Pre("proof_of_square_a", {"E", "F"} \cup Pre("proof_ss", {"challenge", "d", "d_1", "d_2"}))
     \cup Pre("proof_of_square_b", {"E", "F"} \cup Pre("proof_ss", {"challenge", "d", "d_1", "d_2"}))
     \cup Pre("proof_large_i_a", {"C", "D_1", "D_2"})
     \cup Pre("proof_large_i_b", {"C", "D_1", "D_2"}))
Nisp2Sec == {"t", "s1", "s2"}
\* a commitment embedded in a proof: its value -- and, with F9, its opening randomness
ComAsIs == IF "F9" \in Dev THEN {"value", "randomness"} ELSE {"value"}
ProofOfValue(com) == Pre("value", Nisp2Sec) \cup Pre("commitment", com)

\* issuance proof (CL03ZKPoK) for hidden set U (non-empty), with / without a trusted commitment
ZkpokFormat(U, trusted, com) ==
  (IF trusted THEN Pre("proof_C_Ctrusted", {"challenge", "d/*", "d_1", "d_2"}) ELSE {})
  \cup Pre("proof_commited_msgs", {"t", "s1/*", "s2"})
  \cup Pre("proofs_commited_mi/*", ProofOfValue(com))
  \cup Pre("range_proofs_mi/*", RangeLeaves)
  \cup Pre("proof_r", ProofOfValue(com))
  \cup Pre("range_proof_r", RangeLeaves)

\* proof of knowledge of a signature (CL03PoKSignature) for hidden set U (possibly empty)
SpokFormat(U, com) ==
  Pre("spok", {"challenge", "s_1", "s_2", "s_3", "s_4", "s_6", "s_7", "s_8", "s_9"}
              \cup (IF U = {} THEN {} ELSE {"s_5/*"})
              \cup Pre("Cx", com) \cup Pre("Cv", com) \cup Pre("Cw", com) \cup Pre("Ce", com))
  \cup Pre("range_proof_e", RangeLeaves)
  \cup (IF U = {} THEN {} ELSE Pre("proofs_commited_mi/*", ProofOfValue(com)) \cup Pre("range_proofs_commited_mi/*", RangeLeaves))

FormatWith(proof, U, trusted, com) ==
  CASE proof = "zkpok" -> ZkpokFormat(U, trusted, com)
    [] proof = "spok"  -> SpokFormat(U, com)
    [] proof = "range" -> RangeLeaves
\* what the library serialises
Format(proof, U, trusted) == FormatWith(proof, U, trusted, ComAsIs)

(***************************************************************************)
(* Part 3: verifiers as constraint sets                                     *)
(* A leaf is USED if the verifier compares it, hashes it, or raises a base  *)
(* to it; every verifier of zkryptium uses every value / response /         *)
(* challenge leaf, and no randomness leaf.                                  *)
(***************************************************************************)
Used(proof, U, trusted) == FormatWith(proof, U, trusted, {"value"})
\* the leaves carried but never looked at by the verifier (with F9: every embedded randomness)
Unused(proof, U, trusted) == Format(proof, U, trusted) \ Used(proof, U, trusted)
\* C15 / C14: every integer the message format carries is used by the verifier
AllLeavesUsed(proof, U, trusted) == Unused(proof, U, trusted) = {}

\* Boudot verifier: equalities it checks, and the statement of every sub-proof
Eq(a, b) == [kind |-> "Eq", l |-> a, r |-> b]
Sub(name, over) == [kind |-> "Sub", name |-> name, over |-> over]
BoudotConstraints ==
  { Eq("E_prime", "E^(2^T)"), Eq("E_a_2", "E_a(E_prime)/E_a_1"), Eq("E_b_2", "E_b(E_prime)/E_b_1"),
    Sub("square_a", {"sq_a.E", "sq_a.F"}), Sub("square_b", {"sq_b.E", "sq_b.F"}),
    Sub("large_a", {"E_a_2"}), Sub("large_b", {"E_b_2"}) }
  \cup (IF "F8" \in Dev THEN {} ELSE { Eq("sq_a.E", "E_a_1"), Eq("sq_b.E", "E_b_1") })
\* the values whose content a sub-proof certifies, transitively through the equalities
Certified ==
  LET direct == UNION {c.over : c \in {x \in BoudotConstraints : x.kind = "Sub"}}
      viaEq  == {c.r : c \in {x \in BoudotConstraints : x.kind = "Eq" /\ x.l \in direct}}
                \cup {c.l : c \in {x \in BoudotConstraints : x.kind = "Eq" /\ x.r \in direct}}
  IN  direct \cup viaEq
\* C16: the four parts of the decomposition are all certified by a sub-proof, hence the sub-proofs
\* of one proof cannot be carried over to another commitment
Anchored == {"E_a_1", "E_a_2", "E_b_1", "E_b_2"} \subseteq Certified

(***************************************************************************)
(* What an accepted Boudot proof shows about the committed value (tolerance *)
(* arithmetic, toy sizes).  With x' = 2^T x the verifier's statement is      *)
(*     x' - low  = s_a^2 + y_a        high - x' = s_b^2 + y_b                *)
(* where the squares are certified by the proofs of square and y_a, y_b by   *)
(* the larger-interval proof.  That proof, run with bound B and expansion    *)
(* 2^(t+l), only shows y >= -2^(t+l) * B; so a value x is acceptable iff     *)
(* both differences are >= -2^(t+l) * B.  Soundness needs that tolerance to  *)
(* be below 2^T.                                                            *)
(* Intended ([Boudot2000] 3.1.1/3.1.2): low = 2^T a, high = 2^T b,           *)
(*   B = 2 (isqrt(2^T (b - a)) + 1)  (the honest remainders are <= 2 sqrt).  *)
(* F13 (as is): low / high are already widened by 2^(t+l+T/2+1) sqrt(b - a)  *)
(*   and the larger-interval proof is run with B = 2^T * b, so the tolerance *)
(*   is about 2^(t+l) * b in units of x instead of less than 1.              *)
(* tl stands for t + l.                                                      *)
(***************************************************************************)
ISqrt(n) == CHOOSE s \in 0 .. 400 : s * s <= n /\ n < (s + 1) * (s + 1)
BitLen(n) == CHOOSE k \in 0 .. 30 : IF k = 0 THEN n = 0 ELSE Pow2(k - 1) <= n /\ n < Pow2(k)
BT(tl, a, b) == 2 * (tl + 1) + BitLen(b - a)
BWiden(tl, a, b) == IF "F13" \in Dev THEN Pow2(tl + (BT(tl, a, b) \div 2) + 1) * ISqrt(b - a) ELSE 0
BLow(tl, a, b)  == Pow2(BT(tl, a, b)) * a - BWiden(tl, a, b)
BHigh(tl, a, b) == Pow2(BT(tl, a, b)) * b + BWiden(tl, a, b)
BCftBound(tl, a, b) == IF "F13" \in Dev THEN Pow2(BT(tl, a, b)) * b ELSE 2 * (ISqrt(Pow2(BT(tl, a, b)) * (b - a)) + 1)
BTol(tl, a, b) == Pow2(tl) * BCftBound(tl, a, b)
BAcceptable(tl, a, b, x) ==
  /\ Pow2(BT(tl, a, b)) * x - BLow(tl, a, b) >= -BTol(tl, a, b)
  /\ BHigh(tl, a, b) - Pow2(BT(tl, a, b)) * x >= -BTol(tl, a, b)
\* C16, soundness: nothing outside [a, b] is acceptable
BoudotSound(tl, a, b) == \A x \in (a - 2 * (b - a) - 8) .. (b + 2 * (b - a) + 8) : BAcceptable(tl, a, b, x) => (a <= x /\ x <= b)
\* C16, completeness: the honest remainders of every in-range value fit the bound of the larger-interval proof
BoudotComplete(tl, a, b) ==
  \A x \in a .. b :
    LET xa == Pow2(BT(tl, a, b)) * x - BLow(tl, a, b)
        xb == BHigh(tl, a, b) - Pow2(BT(tl, a, b)) * x
    IN  /\ xa >= 0 /\ xb >= 0
        /\ xa - ISqrt(xa) * ISqrt(xa) <= BCftBound(tl, a, b)
        /\ xb - ISqrt(xb) * ISqrt(xb) <= BCftBound(tl, a, b)

(***************************************************************************)
(* Randomness of the Boudot decomposition.  With r' = 2^T r the prover      *)
(* commits E_a_1, E_a_2 with randomness r_a1, r_a2 = r' - r_a1 and E_b_1,    *)
(* E_b_2 with r_b1, r_b2 = -r' - r_b1.  Each part is a linear form over the  *)
(* values the verifier does not know: r', and the free draws ("ra1", "rb1"   *)
(* for the library; a prover that derives r_b1 from r_a1 has fewer).  A sum  *)
(* or difference of two parts that is the zero form makes the product or     *)
(* quotient of two proof fields a function of the committed value alone: a   *)
(* guess of the value can then be confirmed from the proof (property C17).   *)
(***************************************************************************)
SplitVars == {"r", "ra1", "rb1"}
Form(r, a, b) == [v \in SplitVars |-> CASE v = "r" -> r [] v = "ra1" -> a [] v = "rb1" -> b]
SplitParts(dependent) ==
  << Form(0, 1, 0),                                    \* r_a1
     Form(1, -1, 0),                                   \* r_a2 = r' - r_a1
     IF dependent THEN Form(0, -1, 0) ELSE Form(0, 0, 1),      \* r_b1 (dependent: := -r_a1)
     IF dependent THEN Form(-1, 1, 0) ELSE Form(-1, 0, -1) >>  \* r_b2 = -r' - r_b1
FAdd(f, g, sg) == [v \in SplitVars |-> f[v] + sg * g[v]]
ZeroForm == [v \in SplitVars |-> 0]
NoPublicPair(parts) == \A i, j \in 1 .. 4 : i < j => \A sg \in {1, -1} : FAdd(parts[i], parts[j], sg) # ZeroForm
AllFourCancel(parts) == FAdd(FAdd(parts[1], parts[2], 1), FAdd(parts[3], parts[4], 1), 1) = ZeroForm

(***************************************************************************)
(* Links between the sub-proofs of the two composite proofs: which embedded *)
(* statement is compared with which other value by proof_verify /           *)
(* verify_proof.  A sub-proof whose statement is not linked can be replaced *)
(* by a sub-proof about another commitment.  (F11, outside the listed       *)
(* properties: reported by `MissingLinks`, demonstrated by the drivers as   *)
(* informational CLInfoLink events.)                                        *)
(***************************************************************************)
Link(a, b) == [a |-> a, b |-> b]
SpokLinksChecked == { Link("spok/Ce/value", "range_proof_e/E") }
SpokLinksNeeded  == SpokLinksChecked \cup
  { Link("proofs_commited_mi/*/commitment/value", "range_proofs_commited_mi/*/E"),     \* range proof about the per-attribute commitment
    Link("proofs_commited_mi/*/commitment/value", "spok/Cx/value") }                     \* per-attribute commitment about the attribute in Cx
ZkpokLinksChecked == {}
ZkpokLinksNeeded ==
  { Link("proofs_commited_mi/*/commitment/value", "range_proofs_mi/*/E"),
    Link("proofs_commited_mi/*/commitment/value", "C"),
    Link("proof_r/commitment/value", "range_proof_r/E") }
MissingLinks == [spok |-> SpokLinksNeeded \ SpokLinksChecked, zkpok |-> ZkpokLinksNeeded \ ZkpokLinksChecked]

(***************************************************************************)
(* Part 4: blinding lengths (bits) of every response s = r + c * x          *)
(* c: 256-bit Fiat-Shamir challenge; x: the secret; r: random_bits(n)       *)
(* returns exactly n-bit values.  Criterion of property C19:                *)
(*   | floor(s / c) - x | = floor(r / c) >= 2^64   <=>  n >= 256 + 65      *)
(***************************************************************************)
ChalBits == 256
Resp(proof, path, secret, sbits, as_is, intended) ==
  [proof |-> proof, path |-> path, secret |-> secret, sbits |-> sbits,
   mask |-> IF "F10" \in Dev THEN as_is ELSE intended]
\* ln = modulus bits, lm = attribute bits (256), le = lm + 2, ls = ln + lm + 256
MaskTable(ln) ==
  LET lm == 256  wide(x) == x + ChalBits + 80 IN
  { Resp("zkpok", "proof_commited_msgs/s1/*", "m", lm, lm, wide(lm)),
    Resp("zkpok", "proof_commited_msgs/s2", "r", ln, ln, wide(ln)),
    Resp("zkpok", "proofs_commited_mi/*/value/s1", "m", lm, lm, wide(lm)),
    Resp("zkpok", "proofs_commited_mi/*/value/s2", "r_i", ln, ln, wide(ln)),
    Resp("zkpok", "proof_r/value/s1", "r", ln, lm, wide(ln)),
    Resp("zkpok", "proof_r/value/s2", "r_r", ln, ln, wide(ln)),
    Resp("zkpok", "proof_C_Ctrusted/d/*", "m", lm, lm, wide(lm)),
    Resp("spok", "spok/s_1", "rw", ln, ln, wide(ln)),
    Resp("spok", "spok/s_2", "rw*e", ln + lm + 2, ln, wide(ln + lm + 2)),
    Resp("spok", "spok/s_3", "rx", ln, ln, wide(ln)),
    Resp("spok", "spok/s_4", "e", lm + 2, ln, ln),
    Resp("spok", "spok/s_5/*", "m", lm, ln, ln),
    Resp("spok", "spok/s_6", "s", ln + lm + 256, ln, wide(ln + lm + 256)),
    Resp("spok", "spok/s_7", "w", ln, ln, wide(ln)),
    Resp("spok", "spok/s_8", "w*e", ln + lm + 2, ln, wide(ln + lm + 2)),
    Resp("spok", "spok/s_9", "re", ln, ln, wide(ln)),
    Resp("spok", "proofs_commited_mi/*/value/s1", "m", lm, lm, wide(lm)),
    Resp("spok", "proofs_commited_mi/*/value/s2", "r_i", ln, ln, wide(ln)) }
\* The proofs of square inside every range proof answer for x_1 = isqrt(2^T (x - a)) (and the same towards b)
\* with d = omega + c x_1, c a full 256-bit hash.  x_1 has about (T + lx) / 2 bits for an lx-bit interval,
\* T = 2 (t + l + 1) + lx with t = 128, l = 40.  F16 (as is): omega is drawn below 2^(l+t) * rmax, i.e.
\* l + t + lx bits -- shorter than x_1 itself, so floor(d / c)^2 / 2^T is the committed value.
RangeT(lx) == 2 * (128 + 40 + 1) + lx
RangeSquareResp(lx) ==
  LET sb == (RangeT(lx) + lx) \div 2 + 1 IN
  [proof |-> "range", path |-> "proof_of_square_*/proof_ss/d", secret |-> "isqrt(2^T (x - a))", sbits |-> sb,
   mask |-> IF "F16" \in Dev THEN 128 + 40 + lx ELSE sb + ChalBits + 80]
\* a response statistically masks its secret when the blinding exceeds secret * challenge by 64 bits
Masks(r) == r.mask >= r.sbits + ChalBits + 64
\* the listed criterion for a single response divided by its challenge
MasksDivC(r) == r.mask >= ChalBits + 65
\* pairs (s, s') whose quotient approximates a secret: s = r + c*y*x, s' = r' + c*y with masks no
\* longer than c*y  (spok: s_2 / s_1 ~ e and s_8 / s_7 ~ e)
QuotientLeaks(ln) ==
  LET t == MaskTable(ln)
      m(p) == (CHOOSE r \in t : r.path = p).mask
  IN  { pr \in {<< "spok/s_2", "spok/s_1" >>, << "spok/s_8", "spok/s_7" >>} :
          m(pr[1]) < ln + (256 + 2) + ChalBits + 64 }

(***************************************************************************)
(* Part 5: keys on toy moduli                                               *)
(***************************************************************************)
IsPrime(n) == n >= 2 /\ \A d \in 2 .. n - 1 : d * d > n \/ n % d # 0
SafePrimes(bound) == {p \in 5 .. bound : IsPrime(p) /\ IsPrime((p - 1) \div 2)}
\* Legendre symbol by Euler's criterion
Legendre(a, p) == LET x == PowM(a % p, (p - 1) \div 2, p) IN IF x = p - 1 THEN 0 - 1 ELSE x
\* random_qr accepts x = r^2 mod N when x > 1 and gcd(x, N) = 1
QrAccepted(r, N) == LET x == (r * r) % N IN x > 1 /\ Gcd(x, N) = 1
WellFormedElement(x, p, q) == x > 1 /\ x < p * q /\ Gcd(x, p * q) = 1 /\ Legendre(x, p) = 1 /\ Legendre(x, q) = 1
=============================================================================
