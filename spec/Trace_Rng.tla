----------------------------- MODULE Trace_Rng ------------------------------
(***************************************************************************)
(* Validation of randomness traces recorded from the real library           *)
(* (property C07).  Events (one JSON object per line, any merge order --     *)
(* every check below is order independent):                                  *)
(*   Draw  {proc, thr, seq, site, dig}       one production draw (hook)      *)
(*   Made  {kind, id, blind: [digests], pts: [digests], secrets: [digests],  *)
(*          minbits, zero}                   one randomised artefact: the    *)
(*          blinding scalars recomputed by the witness holder (e~, m~_j, s~, *)
(*          secret_prover_blind), its group elements, its secrets            *)
(*   Scan  {id, hits}                        windows of the encoding equal   *)
(*          to a hidden scalar / the signature point                         *)
(* The state is the set of every digest seen so far; a Made event is         *)
(* accepted only if all its values are new, pairwise distinct, non-zero and  *)
(* of full size; a Draw only if its value is new; a Scan only with 0 hits.   *)
(***************************************************************************)
EXTENDS Integers, Sequences, FiniteSets, Json, IOUtils, TLC

VARIABLES l, seen, draws
tvars == << l, seen, draws >>

Log == ndJsonDeserialize(IOEnv.TRACE)
Ev == Log[l]
SeqSet(s) == {s[j] : j \in 1 .. Len(s)}
MinBits == 192        \* a uniform 255-bit scalar has fewer significant bits with probability 2^-63

TDraw == /\ l <= Len(Log) /\ Ev.op = "Draw"
         /\ Ev.dig \notin draws
         /\ draws' = draws \cup {Ev.dig} /\ seen' = seen /\ l' = l + 1

TMade == /\ l <= Len(Log) /\ Ev.op = "Made"
         /\ LET vals == Ev.blind \o Ev.pts \o Ev.secrets IN
            /\ Cardinality(SeqSet(vals)) = Len(vals)           \* pairwise distinct within the artefact
            /\ SeqSet(vals) \cap seen = {}                     \* and never seen before
            /\ Ev.zero = FALSE
            /\ Ev.minbits >= MinBits
            /\ seen' = seen \cup SeqSet(vals)
         /\ draws' = draws /\ l' = l + 1

TScan == /\ l <= Len(Log) /\ Ev.op = "Scan" /\ Ev.hits = 0
         /\ UNCHANGED << seen, draws >> /\ l' = l + 1

\* (drift, not a verdict) does each recomputed blinding equal the draw Rng.tla assigns to its slot?
TSlots == /\ l <= Len(Log) /\ Ev.op = "Slots" /\ UNCHANGED << seen, draws >> /\ l' = l + 1

TraceInit == l = 1 /\ seen = {} /\ draws = {}
TraceNext == TDraw \/ TMade \/ TScan \/ TSlots

\* every value ever accepted is unique: the size of the state equals the number of values consumed
TraceAccepted ==
  LET d == TLCGet("stats").diameter IN
  IF d - 1 = Len(Log) THEN TRUE
  ELSE Print(<< "TRACE-REJECTED", "events", Len(Log), "matched", d - 1, "first unmatched", ToJson(Log[d]) >>, FALSE)
=============================================================================
