------------------------------ MODULE Layouts ------------------------------
(***************************************************************************)
(* Byte layouts of every hash input and of every wire encoding of the BBS  *)
(* and Blind BBS operations, as implemented by zkryptium (draft-08 /        *)
(* draft-01 with the "Grotto" edits).                                       *)
(*                                                                          *)
(* This module is the single source of truth for *what goes into which     *)
(* hash, in which order and under which domain-separation tag*:             *)
(*   - the toy interpretation (BBS.tla) hashes the token stream obtained   *)
(*     by instantiating these layouts with toy values;                     *)
(*   - the injectivity slice (MC_inject) instantiates them with real byte  *)
(*     strings over a tiny alphabet;                                        *)
(*   - the concrete reference evaluator of the harness (refimpl.rs) reads   *)
(*     the JSON export of `Export` below and assembles the real octets by  *)
(*     interpreting the very same field lists.                             *)
(*                                                                          *)
(* Field kinds:                                                             *)
(*   oct   raw octets of the named value                                    *)
(*   lit   a literal ASCII string (n is the string itself)                  *)
(*   u64   I2OSP(value, 8)            len64  I2OSP(length of value, 8)      *)
(*   len16 I2OSP(length of value, 2)                                        *)
(*   pk    compressed G2 point (96)   pt     compressed G1 point (48)       *)
(*   pku   uncompressed G2 point (192, public-key coordinates x || y)       *)
(*   pts   concatenation of compressed G1 points                            *)
(*   sc    scalar, 32 octets big endian      scs  concatenation of scalars  *)
(*   pairs for each (index, scalar): I2OSP(index, 8) || scalar              *)
(***************************************************************************)
EXTENDS Sequences

F(k, n) == [k |-> k, n |-> n]

\* ---- hash inputs -------------------------------------------------------
KeyGenL    == << F("oct", "ikm"), F("len16", "key_info"), F("oct", "key_info") >>
MapMsgL    == << F("oct", "msg") >>
GenSeedL   == << F("oct", "api"), F("lit", "MESSAGE_GENERATOR_SEED") >>
GenIterL   == << F("oct", "v"), F("u64", "i") >>
GenPointL  == << F("oct", "v") >>
DomainL    == << F("pk", "pk"), F("u64", "L"), F("pt", "Q1"), F("pts", "H"),
                 F("oct", "api"), F("len64", "hdr"), F("oct", "hdr") >>
SigEL      == << F("sc", "sk"), F("scs", "msgs"), F("sc", "domain") >>
ChallengeL == << F("u64", "R"), F("pairs", "disc"),
                 F("pt", "Abar"), F("pt", "Bbar"), F("pt", "D"), F("pt", "T1"), F("pt", "T2"),
                 F("sc", "domain"), F("len64", "ph"), F("oct", "ph") >>
BlindChallengeL == << F("u64", "M"), F("pts", "bgens"), F("pt", "C"), F("pt", "Cbar") >>
BlindSigEL == << F("sc", "sk"), F("pt", "B") >>

\* ---- wire encodings ----------------------------------------------------
SigW        == << F("pt", "A"), F("sc", "e") >>
ProofW      == << F("pt", "Abar"), F("pt", "Bbar"), F("pt", "D"),
                  F("sc", "e_cap"), F("sc", "r1_cap"), F("sc", "r3_cap"),
                  F("scs", "m_cap"), F("sc", "challenge") >>
CommitW     == << F("pt", "C"), F("sc", "s_cap"), F("scs", "m_cap"), F("sc", "challenge") >>
ZkpokW      == << F("sc", "s_cap"), F("scs", "m_cap"), F("sc", "challenge") >>   \* commitment proof alone
PublicKeyW  == << F("pk", "W") >>
PkCoordsW   == << F("pku", "W") >>              \* public key as (x, y) coordinates: uncompressed G2 point (192)
SecretKeyW  == << F("sc", "sk") >>
BlindFactorW == << F("sc", "blind") >>
MessageScalarW == << F("sc", "m") >>            \* BBSplusMessage::to_bytes_be / from_bytes_be

\* ---- domain separation tags: api_id || suffix ---------------------------
\* (key generation uses its own tag; "api" is the interface id of the call)
HD(dst, fields) == [dst |-> dst, fields |-> fields]

Hashes ==
  [ keygen          |-> HD("KEYGEN_DST_",                 KeyGenL),
    map_msg         |-> HD("MAP_MSG_TO_SCALAR_AS_HASH_",  MapMsgL),
    gen_seed        |-> HD("SIG_GENERATOR_SEED_",         GenSeedL),
    gen_iter        |-> HD("SIG_GENERATOR_SEED_",         GenIterL),
    gen_point       |-> HD("SIG_GENERATOR_DST_",          GenPointL),
    domain          |-> HD("H2S_",                        DomainL),
    sig_e           |-> HD("H2S_",                        SigEL),
    challenge       |-> HD("H2S_",                        ChallengeL),
    blind_challenge |-> HD("H2S_",                        BlindChallengeL),
    blind_sig_e     |-> HD("H2S_",                        BlindSigEL) ]

Wires ==
  [ signature |-> SigW, proof |-> ProofW, commitment |-> CommitW,
    zkpok |-> ZkpokW, pk_coords |-> PkCoordsW, message_scalar |-> MessageScalarW,
    public_key |-> PublicKeyW, secret_key |-> SecretKeyW, blind_factor |-> BlindFactorW ]

\* ---- interface identifiers ----------------------------------------------
SuiteId == [ sha   |-> "BBS_BLS12381G1_XMD:SHA-256_SSWU_RO_",
             shake |-> "BBS_BLS12381G1_XOF:SHAKE-256_SSWU_RO_" ]
\* api_id(suite, iface) = SuiteId || IfacePrefix || "H2G_HM2S_"
IfacePrefix == [ plain |-> "", blind |-> "BLIND_" ]
ApiSuffix   == "H2G_HM2S_"
\* generators of the committed-message part use "BLIND_" || api_id(suite, blind)
BlindGenPrefix == "BLIND_"

LayoutExport == [ hashes |-> Hashes, wires |-> Wires, suite_id |-> SuiteId,
            iface_prefix |-> IfacePrefix, api_suffix |-> ApiSuffix,
            blind_gen_prefix |-> BlindGenPrefix ]
=============================================================================
