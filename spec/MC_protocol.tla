---------------------------- MODULE MC_protocol -----------------------------
(***************************************************************************)
(* Slice `protocol`: blind issuance and presentation as a multi-party       *)
(* protocol over a network the attacker controls -- a behaviour of the      *)
(* same Api actions, interleaved by TLC.                                    *)
(*                                                                          *)
(*   holders H (each with its own secret message) commit and send the       *)
(*   commitment to the issuer; the issuer blind-signs whatever commitment    *)
(*   arrives; the attacker may redirect a payload seen on the wire to        *)
(*   another holder's session (mix-and-match) and re-send a presentation     *)
(*   under another verifier nonce (replay); a holder accepts a signature     *)
(*   iff verify_blind_sign succeeds with ITS committed message and blinding  *)
(*   factor; a verifier accepts a presentation iff blind_proof_verify        *)
(*   succeeds under the nonce (presentation header) of ITS session.          *)
(*                                                                          *)
(* Protocol-level invariants (beyond the listed properties):                *)
(*   NoMixAndMatch  a holder only ever accepts the signature issued over     *)
(*                  its own commitment                                       *)
(*   NoReplay       a presentation is only accepted under the nonce it was   *)
(*                  generated for                                            *)
(*   Unlinkable     two presentations of one credential share no proof       *)
(*                  element (distinct random draws)                          *)
(* Every behaviour is exported and replayed into the library.               *)
(***************************************************************************)
EXTENDS MCBase

CONSTANTS Holders,            \* e.g. {1, 2}
          MaxNet              \* bound on the number of messages ever sent

VARIABLES net, hold, nonces, acc, done
pvars == << keys, objs, last, pc, hist, net, hold, nonces, acc, done >>

Sec(h) == << << 10 + h >> >>           \* the holder's committed message
SignerMsgs == << MA >>
Hdr == << 1 >>
Nonces == {<< 1 >>, << 2 >>}
Quiet == UNCHANGED << keys, objs, last, hist >>

Setup == /\ pc = "setup" /\ Step(KeyGen(1)) /\ pc' = "run" /\ UNCHANGED << net, hold, nonces, acc, done >>

HCommit(h) ==
  /\ pc = "run" /\ hold[h].cm = 0
  /\ Step(CommitA("sha", Sec(h)))
  /\ hold' = [hold EXCEPT ![h].cm = NObj + 1]
  /\ net' = net \cup {[t |-> "commit", h |-> h, o |-> NObj + 1, n |-> << >>]}
  /\ UNCHANGED << pc, nonces, acc, done >>

ISign ==
  /\ pc = "run"
  /\ \E m \in net : m.t = "commit" /\ m \notin done
       /\ Step(BlindSignA(1, "sha", m.o, Hdr, SignerMsgs))
       /\ net' = (IF last'.res = "Ok" THEN net \cup {[t |-> "sig", h |-> m.h, o |-> NObj + 1, n |-> << >>]} ELSE net)
       /\ done' = done \cup {m}
  /\ UNCHANGED << pc, hold, nonces, acc >>

\* the attacker redirects the payload of one message into another holder's session
ASwap ==
  /\ pc = "run"
  /\ \E m1, m2 \in net : m1.t = m2.t /\ m1.t \in {"commit", "sig"} /\ m1.h # m2.h
       /\ net' = net \cup {[m1 EXCEPT !.o = m2.o]}
  /\ Quiet /\ UNCHANGED << pc, hold, nonces, acc, done >>

HReceive(h) ==
  /\ pc = "run" /\ hold[h].cm # 0 /\ hold[h].sig = 0
  /\ \E m \in net : m.t = "sig" /\ m.h = h /\ m \notin done
       /\ Step(VerifyBlind(m.o, 1, "sha", Hdr, SignerMsgs, Sec(h), BlOf(hold[h].cm)))
       /\ hold' = (IF last'.res = "Ok" THEN [hold EXCEPT ![h].sig = m.o] ELSE hold)
       /\ done' = done \cup {m}
  /\ UNCHANGED << pc, net, nonces, acc >>

VNonce == /\ pc = "run" /\ \E n \in Nonces \ nonces : nonces' = nonces \cup {n}
          /\ Quiet /\ UNCHANGED << pc, net, hold, acc, done >>

HPresent(h) ==
  /\ pc = "run" /\ hold[h].sig # 0 /\ hold[h].shown < 2
  /\ \E n \in nonces :
       /\ Step(BlindProofGen(hold[h].sig, 1, "sha", Hdr, n, SignerMsgs, Sec(h), << 0 >>, << >>, BlOf(hold[h].cm)))
       /\ net' = net \cup {[t |-> "proof", h |-> h, o |-> NObj + 1, n |-> n]}
  /\ hold' = [hold EXCEPT ![h].shown = @ + 1]
  /\ UNCHANGED << pc, nonces, acc, done >>

\* the attacker presents a proof seen on the wire under another nonce
AReplay ==
  /\ pc = "run"
  /\ \E m \in net : m.t = "proof" /\ \E n \in nonces \ {m.n} : net' = net \cup {[m EXCEPT !.n = n]}
  /\ Quiet /\ UNCHANGED << pc, hold, nonces, acc, done >>

VCheck ==
  /\ pc = "run"
  /\ \E m \in net : m.t = "proof" /\ m \notin done
       /\ Step(BlindProofVerify(m.o, 1, "sha", Hdr, m.n, 1, SignerMsgs, NoneV, << 0 >>, NoneO))
       /\ acc' = (IF last'.res = "Ok" THEN acc \cup {[o |-> m.o, n |-> m.n]} ELSE acc)
       /\ done' = done \cup {m}
  /\ UNCHANGED << pc, net, hold, nonces >>

Finish == /\ pc = "run" /\ pc' = "done" /\ Quiet /\ UNCHANGED << net, hold, nonces, acc, done >>

Next == Setup \/ ISign \/ ASwap \/ VNonce \/ AReplay \/ VCheck \/ Finish \/ \E h \in Holders : HCommit(h) \/ HReceive(h) \/ HPresent(h)

MCInit == /\ Init /\ pc = "setup" /\ hist = << >> /\ net = {} /\ nonces = {} /\ acc = {} /\ done = {}
          /\ hold = [h \in Holders |-> [cm |-> 0, sig |-> 0, shown |-> 0]]

NoMixAndMatch == \A h \in Holders : hold[h].sig # 0 => objs[hold[h].sig].cm = hold[h].cm
NoReplay == \A a \in acc : objs[a.o].ph = a.n
\* (the random draws of two artefacts are distinct leaves by construction of Api!Draw: artefact handles differ)
Unlinkable == \A a, b \in acc : a.o # b.o => \A k \in Samples :
                 LET p == ProofVal(k, objs, a.o)  q == ProofVal(k, objs, b.o) IN p.Abar # q.Abar /\ p.D # q.D /\ p.c # q.c
\* bound the exploration: at most MaxNet messages
NetBound == Cardinality(net) <= MaxNet
\* the history (exported for replay) and the last call do not influence the future: hide them
PView == << keys, objs, pc, net, hold, nonces, acc, done >>
=============================================================================
