------------------------------- MODULE Codec -------------------------------
(***************************************************************************)
(* Byte-level framing of the BBS artefacts and the count arithmetic of the  *)
(* entry points that take untrusted numbers (properties C08 and C09).       *)
(*                                                                          *)
(* A decoder is a TOTAL function from (length, content class of every       *)
(* field) to {Ok, Err}; "Panic" is not a value of the intended              *)
(* specification.  The pinned code deviates (switches in Dev):              *)
(*   F2  slices before checking the length -> Panic on short inputs         *)
(*   F4  lax decoding: trailing octets ignored, longer public keys          *)
(*       accepted by prefix, identity public key / identity A / e = 0       *)
(*       accepted                                                           *)
(*   F5  unchecked "+ 1" on caller-supplied indexes -> Panic                *)
(*   F14 generator loop bound count + 1 overflows for count = usize::MAX    *)
(* Field lists come from Layouts!Wires, so the framing checked here is the  *)
(* framing the reference evaluator and the toy model use.                   *)
(***************************************************************************)
EXTENDS Integers, Sequences, FiniteSets, Layouts

CONSTANT Dev

FLen(k) == CASE k = "pt" -> 48 [] k = "sc" -> 32 [] k = "pk" -> 96 [] k = "pku" -> 192 [] OTHER -> 0

Codecs == {"public_key", "pk_coords", "secret_key", "blind_factor", "message_scalar", "signature", "proof", "commitment", "zkpok"}
Variable(c) == c \in {"proof", "commitment", "zkpok"}           \* encodings with a variable number of scalars

\* the field kinds of an encoding with n variable scalars ("scs" expanded)
RECURSIVE Expand(_, _, _)
Expand(fs, n, j) ==
  IF j > Len(fs) THEN << >>
  ELSE (IF fs[j].k = "scs" THEN [i \in 1 .. n |-> "sc"] ELSE << fs[j].k >>) \o Expand(fs, n, j + 1)
Kinds(c, n) == Expand(Wires[c], n, 1)

RECURSIVE SumLen(_, _)
SumLen(ks, j) == IF j > Len(ks) THEN 0 ELSE FLen(ks[j]) + SumLen(ks, j + 1)
EncLen(c, n) == SumLen(Kinds(c, n), 1)
FixedLen(c) == EncLen(c, 0)                             \* length with zero variable scalars

PtClasses == {"valid", "identity", "offcurve", "nosubgroup", "badflags"}
ScClasses == {"valid", "zero", "ge_r", "max"}
ClassesOf(k) == IF k = "sc" THEN ScClasses ELSE PtClasses

\* is a field of kind k and class cl acceptable to a strict decoder of codec c at position j?
IdentityForbidden(c, j) == c \in {"public_key", "pk_coords", "signature", "proof"}     \* W, A, Abar/Bbar/D
ZeroForbidden(c, j) == c = "signature"                                    \* e of a signature
FieldOk(c, j, k, cl) ==
  IF k = "sc" THEN cl = "valid" \/ (cl = "zero" /\ (~ZeroForbidden(c, j) \/ "F4" \in Dev))
  ELSE cl = "valid" \/ (cl = "identity" /\ (~IdentityForbidden(c, j) \/ ("F4" \in Dev /\ c # "proof") \/ ("F1" \in Dev /\ c = "proof")))

(***************************************************************************)
(* An input: codec c, n variable scalars in the underlying honest encoding, *)
(* cls = class of every field of that encoding, delta = octets appended     *)
(* (> 0, all zero octets) or removed from the end (< 0).                    *)
(***************************************************************************)
\* number of whole fields of the honest encoding that survive in the first len octets,
\* and whether position len falls inside a field
RECURSIVE Whole(_, _, _)
Whole(ks, len, j) == IF j > Len(ks) \/ len < FLen(ks[j]) THEN j - 1 ELSE Whole(ks, len - FLen(ks[j]), j + 1)

Decode(c, n, cls, delta) ==
  LET ks   == Kinds(c, n)
      len  == EncLen(c, n) + delta
      \* the scalar count the decoder derives from the length
      nvar == IF Variable(c) THEN (len - FixedLen(c)) \div 32 ELSE 0
      lenok == IF Variable(c) THEN len >= FixedLen(c) /\ (len - FixedLen(c)) % 32 = 0 ELSE len = FixedLen(c)
      \* lax length rule of the pinned code (F4)
      laxok == CASE c = "public_key" -> len >= 96
                 [] c = "proof"      -> len >= 272
                 [] c = "commitment" -> len >= 112
                 [] c = "zkpok"      -> len >= 64
                 [] OTHER            -> len = FixedLen(c)
      whole == Whole(ks, len, 1)                     \* honest fields fully present
      \* every fully present honest field the decoder looks at must be acceptable;
      \* appended zero octets parse as zero scalars (acceptable except as e of a signature)
      used  == IF c = "public_key" THEN 1 ELSE whole
      bad   == \E j \in 1 .. (IF used < Len(ks) THEN used ELSE Len(ks)) : ~FieldOk(c, j, ks[j], cls[j])
      \* F2: the pinned decoders of variable / prefix-sliced encodings index before checking
      short == CASE c = "public_key" -> len < 96
                 [] c = "proof"      -> len < 240
                 [] c = "commitment" -> len < 80
                 [] c = "zkpok"      -> len < 32
                 [] OTHER            -> FALSE
  IN  IF "F2" \in Dev /\ short
        THEN (IF \E j \in 1 .. whole : ~FieldOk(c, j, ks[j], cls[j]) THEN "Err" ELSE "Panic")
      ELSE IF ~(IF "F4" \in Dev THEN laxok ELSE lenok) THEN "Err"
      ELSE IF bad THEN "Err"
      ELSE "Ok"

\* length of the re-encoding of what an accepting decoder returned
ReEncLen(c, n, delta) ==
  LET len == EncLen(c, n) + delta
  IN  IF Variable(c) THEN FixedLen(c) + 32 * ((len - FixedLen(c)) \div 32) ELSE FixedLen(c)

\* C09: an accepted octet string re-encodes to itself (here: to the same length; the
\* replayer compares the octets)
Strict(c, n, cls, delta) == Decode(c, n, cls, delta) = "Ok" => ReEncLen(c, n, delta) = EncLen(c, n) + delta
\* C08: decoders are total
NoPanic(c, n, cls, delta) == Decode(c, n, cls, delta) \in {"Ok", "Err"}

(***************************************************************************)
(* Count arithmetic of the entry points that take untrusted numbers.        *)
(* usize is modelled by 0 .. MaxU with a scaled MaxU; the replayer maps     *)
(* MaxU to usize::MAX, MaxU - 1 to usize::MAX - 1, Half to 2^63, Big to     *)
(* 2^32.  Every subtraction and addition is guarded in the intended         *)
(* specification; `gens` is the number of generators the call requests.     *)
(***************************************************************************)
MaxU == 1000000
Half == 500000
Big  == 65536
R3(res, gens) == [res |-> res, gens |-> gens]

\* proof_verify: U scalars in the proof, index list ix (raw), R' = number of messages supplied
\* (decision on counts only: "Pass" = the cryptographic check is reached)
SeqSetC(s) == {s[j] : j \in 1 .. Len(s)}
ProofVerifyCounts(U, ix, nmsgs) ==
  LET D == SeqSetC(ix)  R == Cardinality(D)  L == U + R
  IN  IF \E i \in D : i >= L THEN R3("Err", L + 1)          \* generators are created before the check
      ELSE IF nmsgs # R THEN R3("Err", L + 1)
      ELSE R3("Pass", L + 1)

\* blind_proof_verify(L, signer indexes ix1, committed indexes ix2, nmsgs = total messages supplied)
BlindProofVerifyCounts(U, L, ix1, ix2, nmsgs) ==
  LET D1 == SeqSetC(ix1)  D2 == SeqSetC(ix2)
      tot == U + Cardinality(D1) + Cardinality(D2)
  IN  IF \E i \in D1 : i >= L THEN R3("Err", 0)                                   \* (fix F12)
      ELSE IF tot < L + 1
             THEN R3(IF "F3" \in Dev THEN "Panic" ELSE "Err", 0)
      ELSE IF \E j \in D2 : j > MaxU - L - 1
             THEN R3(IF "F5" \in Dev THEN "Panic" ELSE "Err", (L + 1) + (tot - L))
      ELSE IF \E j \in D2 : j + L + 1 >= tot THEN R3("Err", (L + 1) + (tot - L))
      ELSE IF nmsgs # Cardinality(D1) + Cardinality(D2) THEN R3("Err", (L + 1) + (tot - L))
      ELSE R3("Pass", (L + 1) + (tot - L))

\* update_signature(update_index, n): n is a declared count (n + 1 generators are in budget)
UpdateCounts(idx, n) ==
  IF idx = MaxU /\ "F5" \in Dev THEN R3("Panic", n + 1)
  ELSE IF n = MaxU THEN R3("Err", 0)                       \* n + 1 does not exist
  \* F14: the generator loop of the pinned code runs over 1 .. count + 1 (exclusive): count = n + 1 = MaxU overflows
  ELSE IF n = MaxU - 1 /\ idx < n /\ "F14" \in Dev THEN R3("Panic", n + 1)
  ELSE IF idx >= n THEN R3("Err", n + 1)
  ELSE R3("Pass", n + 1)

\* proof_gen(messages of length L, index list ix)
ProofGenCounts(L, ix) ==
  LET D == SeqSetC(ix) IN
  IF Cardinality(D) > L \/ \E i \in D : i >= L THEN R3("Err", L + 1) ELSE R3("Pass", L + 1)

\* blind_proof_gen(L signer, M committed, ix1, ix2)
BlindProofGenCounts(L, M, ix1, ix2) ==
  IF Len(ix1) > L \/ (\E i \in SeqSetC(ix1) : i >= L) \/ Len(ix2) > M \/ (\E j \in SeqSetC(ix2) : j >= M)
  THEN R3("Err", 0) ELSE R3("Pass", L + M + 2)

\* the work of a call is bounded by the size of its input: 4 * size + 16 generators
Budget(size) == 4 * size + 16
=============================================================================
