------------------------------ MODULE MC_blind ------------------------------
(***************************************************************************)
(* Slices `blind` and `blind_adv` (properties C05, C06, C11-iii).           *)
(* [commit to M messages | no commitment] -> blind_sign over L signer        *)
(* messages -> one of                                                        *)
(*   honest verify_blind_sign; honest blind proofs for EVERY pair of        *)
(*   disclosure choices (signer part, committed part) and their honest      *)
(*   verification;                                                           *)
(*   a tampered / truncated / extended / cross-suite commitment presented   *)
(*   to the signer (must be refused);                                       *)
(*   every single edit of the inputs of verify_blind_sign and               *)
(*   blind_proof_verify (must be rejected).                                  *)
(***************************************************************************)
EXTENDS MCBase

CONSTANTS MaxL, MaxM, Mode     \* Mode = "honest" (slice blind), "adv" (slice blind_adv) or "all"

SAtoms == {MA, ME}                 \* signer messages
CAtoms == {MB, ME}                 \* committed messages
SVecs == SeqsUpTo(SAtoms, MaxL)
CVecs == SeqsUpTo(CAtoms, MaxM)
Hdrs == {NoneO, << 1 >>}
FormsO(x) == IF x = << >> THEN {NoneO, << >>} ELSE {x}
FormsV(x) == IF x = << >> THEN {NoneV, << >>} ELSE {x}

Setup == pc = "setup" /\ Step(KeyGen(IF 1 \in keys THEN 2 ELSE 1))
         /\ pc' = IF 1 \in keys THEN "commit" ELSE "setup"

DoCommit == /\ pc = "commit"
            /\ \E s \in Suites, c \in CVecs, f \in {"none", "some"} :
                  (f = "none" => c = << >>) /\ Step(CommitA(s, IF f = "none" THEN NoneV ELSE c))
            /\ pc' = "sign"

\* the commitment (if any) is artefact 1
CM == IF NObj >= 1 /\ objs[1].kind = "commit" THEN 1 ELSE 0

DoSign == /\ pc \in {"commit", "sign"}
          /\ \E s \in (IF CM = 0 THEN Suites ELSE {objs[1].s}), h \in Hdrs, v \in SVecs :
                Step(BlindSignA(1, s, CM, h, v))
          /\ pc' = "check"

SH == NObj                                  \* the blind signature (last artefact)
CMsgs == IF CM = 0 THEN << >> ELSE objs[1].cms
Bl == IF CM = 0 THEN NoBl ELSE BlOf(1)

HonestVerify ==
  /\ pc = "check" /\ objs[SH].kind = "sig"
  /\ LET o == objs[SH] IN
     \E h \in FormsO(o.hdr), m \in FormsV(o.msgs), c \in FormsV(CMsgs) :
        Step(VerifyBlind(SH, 1, o.s, h, m, c, Bl))
  /\ pc' = "done"

RT == /\ pc = "check" /\ last.op = "BlindSign" /\ Step(RoundTrip(SH)) /\ pc' = "check"

EditVerify ==
  /\ pc = "check" /\ objs[SH].kind = "sig" /\ last.op = "BlindSign"
  /\ LET o == objs[SH] IN
     \/ \E m \in MsgEdits(o.msgs) : Len(m) <= MaxL + 1 /\ Step(VerifyBlind(SH, 1, o.s, o.hdr, m, CMsgs, Bl))
     \/ \E c \in MsgEdits(CMsgs) : Len(c) <= MaxM + 1 /\ Step(VerifyBlind(SH, 1, o.s, o.hdr, o.msgs, c, Bl))
     \/ \E b \in {NoBl, BlOther} \ {Bl} : Step(VerifyBlind(SH, 1, o.s, o.hdr, o.msgs, CMsgs, b))
     \/ \E h \in {<< >>, << 1 >>, << 2 >>} \ {o.hdr} : Step(VerifyBlind(SH, 1, o.s, h, o.msgs, CMsgs, Bl))
     \/ Step(VerifyBlind(SH, 2, o.s, o.hdr, o.msgs, CMsgs, Bl))
     \/ Step(VerifyBlind(SH, 1, Other(o.s), o.hdr, o.msgs, CMsgs, Bl))
     \* a committed message moved to the signer list and vice versa
     \/ Len(CMsgs) >= 1 /\ Step(VerifyBlind(SH, 1, o.s, o.hdr, Append(o.msgs, CMsgs[1]), Tail(CMsgs), Bl))
     \/ Len(o.msgs) >= 1 /\ Step(VerifyBlind(SH, 1, o.s, o.hdr, SubSeq(o.msgs, 1, Len(o.msgs) - 1), << o.msgs[Len(o.msgs)] >> \o CMsgs, Bl))
     \* through the plain interface
     \/ Step(Verify(SH, 1, o.s, o.hdr, o.msgs \o CMsgs))
     \/ Step(Verify(SH, 1, o.s, o.hdr, o.msgs))
  /\ pc' = "done"

\* ---- the signer is shown a bad commitment ------------------------------------
NCScal == Len(objs[1].cms) + 2
BadCommit ==
  /\ pc = "sign" /\ CM = 1
  /\ \/ \E f \in {101, 201} : Step(Tamper(1, {f}, 0))
     \/ \E j \in 1 .. NCScal : Step(Tamper(1, {j}, 0))
     \/ \E d \in {-1, 1} : Step(Tamper(1, {}, d))
  /\ pc' = "badcommit"
SignBad == /\ pc = "badcommit"
           /\ \E v \in {<< >>, << MA >>} : Step(BlindSignA(1, objs[1].s, NObj, << 1 >>, v))
           /\ pc' = "done"
SignCross == /\ pc = "sign" /\ CM = 1
             /\ Step(BlindSignA(1, Other(objs[1].s), 1, << 1 >>, << MA >>))
             /\ pc' = "done"

\* the same commitment octets replayed to a signer of the other suite after they were accepted once
\* (history: a successful blind_sign on these octets precedes the replay)
SignCrossAfter == /\ pc = "check" /\ last.op = "BlindSign" /\ CM = 1 /\ objs[SH].kind = "sig"
                  /\ Step(BlindSignA(1, Other(objs[1].s), 1, << 1 >>, << MA >>))
                  /\ pc' = "done"

\* ---- blind proofs ---------------------------------------------------------------
DoGen == /\ pc = "check" /\ objs[SH].kind = "sig" /\ last.op = "BlindSign"
         /\ LET o == objs[SH] IN
            \E ph \in {NoneO, << 2 >>}, D \in SUBSET (0 .. Len(o.msgs) - 1), CD \in SUBSET (0 .. Len(CMsgs) - 1) :
               Step(BlindProofGen(SH, 1, o.s, o.hdr, ph, o.msgs, CMsgs, SortSet(D), SortSet(CD), Bl))
         /\ pc' = "proof"

PH == NObj
\* what the honest verifier is given
VD(p)  == SortSet({i \in p.D : i < Len(p.msgs)})
VCD(p) == SortSet({i - Len(p.msgs) - 1 : i \in {x \in p.D : x > Len(p.msgs)}})
VM(p)  == LET ix == VD(p) IN [j \in 1 .. Len(ix) |-> p.msgs[ix[j] + 1]]
VCM(p) == LET ix == VCD(p) IN [j \in 1 .. Len(ix) |-> p.cms[ix[j] + 1]]

HonestProof ==
  /\ pc = "proof" /\ objs[PH].kind = "proof" /\ objs[PH].mut = {} /\ objs[PH].dl = 0
  /\ LET p == objs[PH] IN
     \E m \in FormsV(VM(p)), c \in FormsV(VCM(p)), ix \in FormsO(VD(p)), cx \in FormsO(VCD(p)) :
        \E Lv \in (IF Len(p.msgs) = 0 THEN {NoneL, 0} ELSE {Len(p.msgs)}) :
           Step(BlindProofVerify(PH, 1, p.s, p.hdr, p.ph, Lv, m, c, ix, cx))
  /\ pc' = "done"

RTP == /\ pc = "proof" /\ last.op = "BlindProofGen" /\ Step(RoundTrip(PH)) /\ pc' = "proof"

EditProof ==
  /\ pc = "proof" /\ objs[PH].mut = {} /\ objs[PH].dl = 0
  /\ LET p  == objs[PH]
         L  == Len(p.msgs)
         dm == VM(p)   cm == VCM(p)   ix == VD(p)   cx == VCD(p)
         BPV(Lv, m, c, i1, i2) == Step(BlindProofVerify(PH, 1, p.s, p.hdr, p.ph, Lv, m, c, i1, i2))
     IN
     \/ \E j \in 1 .. Len(dm), x \in SAtoms \cup {MB} : x # dm[j] /\ BPV(L, [dm EXCEPT ![j] = x], cm, ix, cx)
     \/ \E j \in 1 .. Len(cm), x \in CAtoms \cup {MA} : x # cm[j] /\ BPV(L, dm, [cm EXCEPT ![j] = x], ix, cx)
     \/ \E Lv \in {L - 1, L + 1, L + 2} : Lv >= 0 /\ BPV(Lv, dm, cm, ix, cx)
     \/ \E j \in 1 .. Len(ix) : BPV(L, SubSeq(dm, 1, j - 1) \o SubSeq(dm, j + 1, Len(dm)), cm, SubSeq(ix, 1, j - 1) \o SubSeq(ix, j + 1, Len(ix)), cx)
     \/ \E j \in 1 .. Len(cx) : BPV(L, dm, SubSeq(cm, 1, j - 1) \o SubSeq(cm, j + 1, Len(cm)), ix, SubSeq(cx, 1, j - 1) \o SubSeq(cx, j + 1, Len(cx)))
     \/ \E i \in 0 .. L - 1 : i \notin p.D /\
           LET nix == SortSet(SeqSet(ix) \cup {i})
               pos == CHOOSE q \in 1 .. Len(nix) : nix[q] = i
           IN  BPV(L, SubSeq(dm, 1, pos - 1) \o << p.msgs[i + 1] >> \o SubSeq(dm, pos, Len(dm)), cm, nix, cx)
     \* a disclosed committed message presented as a signer message (aliasing) and duplicates with a forged message
     \/ Len(cx) >= 1 /\ BPV(L, Append(dm, cm[1]), Tail(cm), Append(ix, cx[1] + L + 1), Tail(cx))
     \/ Len(ix) >= 1 /\ BPV(L, Append(dm, MB), cm, Append(ix, ix[Len(ix)]), cx)
     \/ Len(cx) >= 1 /\ BPV(L, dm, Append(cm, MA), ix, Append(cx, cx[Len(cx)]))
     \/ \E h \in {<< >>, << 1 >>, << 2 >>} \ {p.hdr} : Step(BlindProofVerify(PH, 1, p.s, h, p.ph, L, dm, cm, ix, cx))
     \/ \E f \in {<< >>, << 1 >>, << 2 >>} \ {p.ph} : Step(BlindProofVerify(PH, 1, p.s, p.hdr, f, L, dm, cm, ix, cx))
     \/ Step(BlindProofVerify(PH, 2, p.s, p.hdr, p.ph, L, dm, cm, ix, cx))
     \/ Step(BlindProofVerify(PH, 1, Other(p.s), p.hdr, p.ph, L, dm, cm, ix, cx))
     \* through the plain interface
     \/ Step(ProofVerify(PH, 1, p.s, p.hdr, p.ph, dm \o cm, ix \o [j \in 1 .. Len(cx) |-> cx[j] + L + 1]))
  /\ pc' = "done"

NPScal(p) == 4 + (Len(p.msgs) + 1 + Len(p.cms)) - Cardinality(p.D)
TamperProof == /\ pc = "proof" /\ last.op = "BlindProofGen"
               /\ LET p == objs[PH] IN
                  \/ \E f \in {101, 102, 103, 202} : Step(Tamper(PH, {f}, 0))
                  \/ \E j \in 1 .. NPScal(p) : Step(Tamper(PH, {j}, 0))
                  \/ \E d \in {-1, 1} : Step(Tamper(PH, {}, d))
               /\ pc' = "tproof"
AfterTamperProof == /\ pc = "tproof"
                    /\ LET p == objs[PH] IN
                       Step(BlindProofVerify(PH, 1, p.s, p.hdr, p.ph, Len(p.msgs), VM(p), VCM(p), VD(p), VCD(p)))
                    /\ pc' = "done"

\* ---- blind proofs assembled from public data (the attacker has no signature at all) ------------
PtA == {"id", "zBv", "other", "lo"}
PtB == {"id", "xD", "other", "lo"}
PtD == {"id", "Bv", "yBv"}
\* targets: (L, disclosed pairs over the slots 0 .. L-1 | L (blind factor) | L+1 ..), U hidden
BTargets == { [L |-> 0, dp |-> << >>, U |-> 1], [L |-> 1, dp |-> << << 0, MA >> >>, U |-> 1],
              [L |-> 1, dp |-> << << 0, MA >>, << 2, MB >> >>, U |-> 1], [L |-> 0, dp |-> << << 1, MB >> >>, U |-> 2] }
DoCraftB == /\ pc = "commit"
            /\ \E s \in Suites, t \in BTargets, a \in PtA, b \in PtB, d \in PtD :
                 /\ (a = "lo") <=> (b = "lo")
                 /\ Step(Craft(1, s, "blind", << 1 >>, << 2 >>, t.dp, t.U, t.L, [A |-> a, B |-> b, D |-> d]))
            /\ pc' = "craftedB"
AfterCraftB ==
  /\ pc = "craftedB"
  /\ LET c  == objs[NObj]
         sg == {j \in 1 .. Len(c.dp) : c.dp[j][1] < c.L}
         cm == {j \in 1 .. Len(c.dp) : c.dp[j][1] > c.L}
         sq(S) == SortSet(S)
     IN  Step(BlindProofVerify(NObj, 1, c.s, c.hdr, c.ph, c.L,
                               [j \in 1 .. Cardinality(sg) |-> c.dp[sq(sg)[j]][2]], [j \in 1 .. Cardinality(cm) |-> c.dp[sq(cm)[j]][2]],
                               [j \in 1 .. Cardinality(sg) |-> c.dp[sq(sg)[j]][1]], [j \in 1 .. Cardinality(cm) |-> c.dp[sq(cm)[j]][1] - c.L - 1]))
  /\ pc' = "done"

Next == \/ Setup \/ DoCommit \/ DoSign \/ RT \/ DoGen \/ RTP
        \/ (Mode \in {"adv", "all"} /\ (DoCraftB \/ AfterCraftB))
        \/ (Mode \in {"honest", "all"} /\ (HonestVerify \/ HonestProof))
        \/ (Mode \in {"adv", "all"} /\ (EditVerify \/ BadCommit \/ SignBad \/ SignCross \/ SignCrossAfter \/ EditProof \/ TamperProof \/ AfterTamperProof))

MCInit == Init /\ pc = "setup" /\ hist = << >>
=============================================================================
