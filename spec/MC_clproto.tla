----------------------------- MODULE MC_clproto -----------------------------
(***************************************************************************)
(* CL03 issuance and presentation as a state machine over abstract          *)
(* artefacts (properties C13, C14, C15; direction specification ->          *)
(* implementation).  One action per library call:                           *)
(*   Commit / CommitTrusted   Commitment::commit_with_pk / .._commitment_pk  *)
(*   Prove                    ZKPoK::generate_proof                          *)
(*   VerifyZk                 ZKPoK::verify_proof                            *)
(*   BlindSign                BlindSignature::blind_sign (refuses = panics)  *)
(*   Update                   BlindSignature::update_signature               *)
(*   Unblind                  BlindSignature::unblind_sign                   *)
(*   VerifySig                Signature::verify_multiattr                    *)
(*   ProofGen / ProofVerify   PoKSignature::proof_gen / proof_verify         *)
(* An attribute is an atom: 0 is the value 0, 1 and 2 are two different     *)
(* non-zero values (the replayer maps them to random lm-bit integers), 3 is *)
(* the largest admissible value 2^lm - 1.                                   *)
(* What a (blind) signature signs is its CONTENT: for every position the    *)
(* multiset of non-zero atoms in the exponent of that position's base --    *)
(* the hidden part of the commitment the issuer was given plus the          *)
(* revealed values the issuer added.  A vector verifies iff at every        *)
(* position the content is exactly that attribute (nothing, for 0).         *)
(* A behaviour follows the honest protocol and deviates in at most MaxDev   *)
(* places (another commitment, another hidden set, another value, a lying   *)
(* prover, a trusted commitment demanded / dropped / about other values,    *)
(* ...).  TLC evaluates the expected outcome of every call; every complete  *)
(* behaviour is exported and replayed on real keys by `zkv-cl replay-proto`.*)
(***************************************************************************)
EXTENDS Integers, Sequences, FiniteSets, TLC, Json

CONSTANTS MaxN,      \* attribute counts 1 .. MaxN
          MaxDev     \* deviations from the honest protocol per behaviour

NZ == {1, 2, 3}                      \* non-zero atoms (3 is the largest attribute value, 2^lm - 1)
Alt(a) == IF a = 1 THEN 2 ELSE 1     \* another (non-zero) value
Vectors == {<< 1 >>, << 0 >>, << 3 >>, << 1, 2 >>, << 0, 1 >>, << 1, 1 >>, << 3, 1 >>, << 1, 0, 2 >>, << 2, 1, 0 >>, << 1, 3, 0 >>}
Creds == {v \in Vectors : Len(v) <= MaxN}
Pos(n) == 0 .. n - 1

VARIABLES objs, pc, hist, devs, cred
vars == << objs, pc, hist, devs, cred >>
NObj == Len(objs)

\* ---- content algebra --------------------------------------------------------
Empty == [p \in Pos(MaxN) |-> [a \in NZ |-> 0]]
AddAt(cont, p, x) == IF x = 0 \/ p \notin Pos(MaxN) THEN cont ELSE [cont EXCEPT ![p][x] = @ + 1]
RECURSIVE AddHidden(_, _, _)
AddHidden(cont, ms, U) ==                     \* the hidden part of a commitment to ms over U
  IF U = {} THEN cont
  ELSE LET p == CHOOSE q \in U : TRUE IN AddHidden(AddAt(cont, p, ms[p + 1]), ms, U \ {p})
RECURSIVE AddRev(_, _, _)
AddRev(cont, rv, j) == IF j > Len(rv) THEN cont ELSE AddRev(AddAt(cont, rv[j][1], rv[j][2]), rv, j + 1)
Single(x) == [a \in NZ |-> IF a = x THEN 1 ELSE 0]
Matches(cont, ms) == \A p \in Pos(MaxN) : cont[p] = Single(IF p < Len(ms) THEN ms[p + 1] ELSE 0)

SortedSeq(S) == LET RECURSIVE F(_) F(T) == IF T = {} THEN << >> ELSE LET m == CHOOSE x \in T : \A y \in T : x <= y IN << m >> \o F(T \ {m}) IN F(S)
RevOf(ms, U) == LET ix == SortedSeq(Pos(Len(ms)) \ U) IN [j \in 1 .. Len(ix) |-> << ix[j], ms[ix[j] + 1] >>]
Vals(rv) == [j \in 1 .. Len(rv) |-> rv[j][2]]

\* ---- artefacts ----------------------------------------------------------------
\* every artefact is a record with the same fields (unused ones are 0 / {} / << >> / Empty)
Obj(kind, ms, U, a, b, ok, cont) == [kind |-> kind, ms |-> ms, U |-> U, a |-> a, b |-> b, ok |-> ok, ok2 |-> TRUE, cont |-> cont]
Rec(op, args, res) == [op |-> op, args |-> args, res |-> res]
Log(r) == hist' = Append(hist, r)
Dev(d) == devs' = devs + d /\ devs + d <= MaxDev
B2S(b) == IF b THEN "true" ELSE "false"
IxSeq(S) == SortedSeq(S)

\* does vector ms open commitment c on the hidden set U?
Opens(c, ms, U) == /\ c.U = U /\ Len(ms) = Len(c.ms) /\ \A p \in U : ms[p + 1] = c.ms[p + 1]

\* ---- actions ------------------------------------------------------------------
Start ==
  /\ pc = "start"
  /\ \E v \in Creds : cred' = v /\ Log(Rec("Cred", [ms |-> v], "ok"))
  /\ pc' = "commit" /\ UNCHANGED << objs, devs >>

\* the holder commits to the attributes at U (artefact 1) and once more, with fresh randomness (artefact 2)
DoCommit ==
  /\ pc = "commit"
  /\ \E U \in SUBSET Pos(Len(cred)) \ {{}} :
       /\ objs' = << Obj("com", cred, U, 0, 0, TRUE, Empty), Obj("com", cred, U, 0, 0, TRUE, Empty) >>
       /\ Log(Rec("Commit", [U |-> IxSeq(U), count |-> 2], "ok"))
  /\ pc' = "tcommit" /\ UNCHANGED << devs, cred >>
HU == objs[1].U

\* optionally a commitment for a trusted party: to the same attributes, or (deviation) to other ones
DoTrusted ==
  /\ pc = "tcommit"
  /\ \/ /\ UNCHANGED << objs, hist, devs >>
     \/ /\ objs' = Append(objs, Obj("tcom", cred, HU, 0, 0, TRUE, Empty))
        /\ Log(Rec("CommitTrusted", [ms |-> cred, U |-> IxSeq(HU)], "ok")) /\ UNCHANGED devs
     \/ /\ LET p == CHOOSE q \in HU : TRUE
               m2 == [cred EXCEPT ![p + 1] = Alt(@)]
           IN  /\ objs' = Append(objs, Obj("tcom", m2, HU, 0, 0, TRUE, Empty))
               /\ Log(Rec("CommitTrusted", [ms |-> m2, U |-> IxSeq(HU)], "ok"))
        /\ Dev(1)
  /\ pc' = "prove" /\ UNCHANGED cred
TC == IF NObj >= 3 /\ objs[3].kind = "tcom" THEN 3 ELSE 0

\* the proof of knowledge of the committed values: honest, or (deviation) made from other values
DoProve ==
  /\ pc = "prove"
  /\ \/ \E lie \in BOOLEAN :
          LET p  == CHOOSE q \in HU : TRUE
              ms == IF lie THEN [cred EXCEPT ![p + 1] = Alt(@)] ELSE cred
              sound  == Opens(objs[1], ms, HU)                       \* the part about the commitment
              sound2 == TC = 0 \/ Opens(objs[TC], ms, HU)            \* the part about the trusted commitment
          IN  /\ objs' = Append(objs, [Obj("zk", ms, HU, 1, TC, sound, Empty) EXCEPT !.ok2 = sound2])
              /\ Log(Rec("Prove", [ms |-> ms, com |-> 1, tcom |-> TC, U |-> IxSeq(HU), out |-> NObj + 1], "ok"))
              /\ Dev(IF lie THEN 1 ELSE 0)
  /\ pc' = "issue" /\ UNCHANGED cred
ZK == IF TC = 0 THEN 3 ELSE 4

ZkOk(z, c, t, U) ==
  /\ objs[z].ok /\ objs[z].a = c /\ objs[z].U = U
  /\ (t # 0 => (objs[z].b = t /\ objs[z].ok2))   \* a demanded trusted commitment must be the proof's own; if none is
                                                 \* demanded the trusted part of the proof is not looked at

\* the issuer checks the proof and signs: honestly, or with one mismatching argument
OtherU == LET n == Len(cred) IN
          IF \E V \in SUBSET Pos(n) : V # HU /\ Cardinality(V) = Cardinality(HU)
          THEN CHOOSE V \in SUBSET Pos(n) : V # HU /\ Cardinality(V) = Cardinality(HU) ELSE HU
DoIssue ==
  /\ pc = "issue"
  /\ \E how \in {"honest", "other_commitment", "trusted_dropped", "trusted_demanded", "other_U", "other_value"} :
       LET c  == IF how = "other_commitment" THEN 2 ELSE 1
           t  == CASE how = "trusted_dropped" -> 0
                   [] how = "trusted_demanded" -> (IF TC = 0 THEN -1 ELSE TC)
                   [] OTHER -> TC
           U  == IF how = "other_U" THEN OtherU ELSE HU
           rv0 == RevOf(cred, HU)
           rv == IF how = "other_value" /\ Len(rv0) >= 1 THEN [rv0 EXCEPT ![1] = << rv0[1][1], Alt(rv0[1][2]) >>] ELSE rv0
           applicable == CASE how = "trusted_dropped" -> TC # 0
                           [] how = "trusted_demanded" -> TC = 0
                           [] how = "other_U" -> OtherU # HU
                           [] how = "other_value" -> Len(rv0) >= 1
                           [] OTHER -> TRUE
           ok == t # -1 /\ ZkOk(ZK, c, t, U)
           cont == AddRev(AddHidden(Empty, objs[c].ms, objs[c].U), rv, 1)
       IN  /\ applicable
           /\ Dev(IF how \in {"honest", "other_value"} THEN 0 ELSE 1)     \* the issuer may choose the revealed values
           /\ Log(Rec("VerifyZk", [zk |-> ZK, com |-> c, tcom |-> t, U |-> IxSeq(U)], B2S(ok)))
           /\ objs' = IF ok THEN Append(objs, Obj("bsig", << >>, U, c, 0, TRUE, cont)) ELSE objs
           /\ pc' = IF ok THEN "issued" ELSE "refused"
           /\ cred' = IF how = "other_value" THEN [cred EXCEPT ![rv[1][1] + 1] = rv[1][2]] ELSE cred
\* (two log entries per issue: VerifyZk above, BlindSign with the same arguments below)
LogIssue ==
  /\ pc \in {"issued", "refused"}
  /\ LET v == hist[Len(hist)].args IN
     Log(Rec("BlindSign", [zk |-> v.zk, com |-> v.com, tcom |-> v.tcom, U |-> v.U,
                           rv |-> RevOf(cred, HU), out |-> (IF pc = "issued" THEN NObj ELSE 0)],
             IF pc = "issued" THEN "ok" ELSE "refuse"))
  /\ pc' = IF pc = "issued" THEN "branch" ELSE "done"
  /\ UNCHANGED << objs, devs, cred >>
BS == NObj

\* after issuance: unblind and verify | update a revealed value, unblind, verify | unblind and present
Branch ==
  /\ pc = "branch"
  /\ pc' \in {"unblind", "update", "present0"}
  /\ UNCHANGED << objs, hist, devs, cred >>

UnblindWith(b, c, next) ==
  /\ objs' = Append(objs, Obj("sig", << >>, {}, 0, 0, objs[b].a = c, objs[b].cont))
  /\ Log(Rec("Unblind", [bsig |-> b, com |-> c, out |-> NObj + 1], "ok"))
  /\ pc' = next
DoUnblind ==
  /\ pc = "unblind"
  /\ \/ UnblindWith(BS, 1, "verify") /\ UNCHANGED devs
     \/ UnblindWith(BS, 2, "verify") /\ Dev(1)
  /\ UNCHANGED cred
SG == NObj

SigOk(s, ms) == objs[s].ok /\ Matches(objs[s].cont, ms)
DoVerify ==
  /\ pc = "verify"
  /\ \E how \in {"same", "hidden_changed", "revealed_changed", "attr_appended", "zero_dropped"} :
       LET n  == Len(cred)
           ph == CHOOSE q \in HU : TRUE
           rs == Pos(n) \ HU
           ms == CASE how = "hidden_changed" -> [cred EXCEPT ![ph + 1] = Alt(@)]
                   [] how = "revealed_changed" -> (LET pr == CHOOSE q \in rs : TRUE IN [cred EXCEPT ![pr + 1] = Alt(@)])
                   [] how = "attr_appended" -> Append(cred, 1)
                   [] how = "zero_dropped" -> SubSeq(cred, 1, n - 1)
                   [] OTHER -> cred
           applicable == CASE how = "revealed_changed" -> rs # {}
                           [] how = "attr_appended" -> n < MaxN
                           [] how = "zero_dropped" -> n >= 2 /\ cred[n] = 0       \* a trailing 0 is no attribute at all
                           [] OTHER -> TRUE
       IN  /\ applicable
           /\ Log(Rec("VerifySig", [sig |-> SG, ms |-> ms], B2S(SigOk(SG, ms))))
  /\ pc' = "done" /\ UNCHANGED << objs, devs, cred >>

\* re-issuance with another value for a revealed attribute (same commitment, or deviation: the other one)
DoUpdate ==
  /\ pc = "update"
  /\ Pos(Len(cred)) \ HU # {}
  /\ \E c \in {1, 2} :
       LET pr  == CHOOSE q \in Pos(Len(cred)) \ HU : TRUE
           nc  == [cred EXCEPT ![pr + 1] = Alt(@)]
           rv  == RevOf(nc, HU)
           cont == AddRev(AddHidden(Empty, objs[c].ms, objs[c].U), rv, 1)
       IN  /\ Dev(IF c = 1 THEN 0 ELSE 1)
           /\ objs' = Append(objs, Obj("bsig", << >>, HU, c, 0, TRUE, cont))
           /\ Log(Rec("Update", [bsig |-> BS, com |-> c, rv |-> rv, out |-> NObj + 1], "ok"))
           /\ cred' = nc
  /\ pc' = "unblind2"
DoUnblind2 ==
  /\ pc = "unblind2"
  /\ UnblindWith(BS, 1, "verify2") /\ UNCHANGED << devs, cred >>
DoVerify2 ==            \* the updated vector, and the vector before the update
  /\ pc = "verify2"
  /\ \E old \in BOOLEAN :
       LET pr == CHOOSE q \in Pos(Len(cred)) \ HU : TRUE
           ms == IF old THEN [cred EXCEPT ![pr + 1] = Alt(@)] ELSE cred
       IN  Log(Rec("VerifySig", [sig |-> SG, ms |-> ms], B2S(SigOk(SG, ms))))
  /\ pc' = "done" /\ UNCHANGED << objs, devs, cred >>

\* presentation: the holder proves knowledge of the signature hiding the set V
Present0 == /\ pc = "present0" /\ UnblindWith(BS, 1, "present") /\ UNCHANGED << devs, cred >>
DoPresent ==
  /\ pc = "present"
  /\ \E V \in SUBSET Pos(Len(cred)), lie \in BOOLEAN :
       LET p  == CHOOSE q \in Pos(Len(cred)) : TRUE
           ms == IF lie THEN [cred EXCEPT ![p + 1] = Alt(@)] ELSE cred
           ok == SigOk(SG, ms)
       IN  /\ Dev(IF lie THEN 1 ELSE 0)
           /\ objs' = Append(objs, Obj("spok", ms, V, SG, 0, ok, Empty))
           /\ Log(Rec("ProofGen", [sig |-> SG, ms |-> ms, U |-> IxSeq(V), out |-> NObj + 1], "ok"))
  /\ pc' = "pverify" /\ UNCHANGED cred
PK == NObj
DoPVerify ==
  /\ pc = "pverify"
  /\ \E how \in {"same", "revealed_changed", "other_U", "n_plus_1", "n_plus_1_no_spare_bases"} :
       LET o  == objs[PK]
           n  == Len(o.ms)
           rs == Pos(n) \ o.U
           V2 == IF \E W \in SUBSET Pos(n) : W # o.U /\ Cardinality(W) = Cardinality(o.U)
                 THEN CHOOSE W \in SUBSET Pos(n) : W # o.U /\ Cardinality(W) = Cardinality(o.U) ELSE o.U
           V  == IF how = "other_U" THEN V2 ELSE o.U
           rv0 == Vals(RevOf(o.ms, V))
           rv == IF how = "revealed_changed" /\ Len(rv0) >= 1 THEN [rv0 EXCEPT ![1] = Alt(@)] ELSE rv0
           nn == IF how \in {"n_plus_1", "n_plus_1_no_spare_bases"} THEN n + 1 ELSE n
           nb == IF how = "n_plus_1" THEN n + 1 ELSE n            \* bases handed to the verifier
           applicable == CASE how = "revealed_changed" -> Len(rv0) >= 1
                           [] how = "other_U" -> V2 # o.U
                           [] OTHER -> TRUE
           \* other_U: the revealed values are the honest ones of the other set; they are the same statement only
           \* if ... never: the hidden set is part of the statement
           ok == o.ok /\ how = "same"
       IN  /\ applicable
           /\ Dev(IF how = "same" THEN 0 ELSE 1)
           /\ Log(Rec("ProofVerify", [spok |-> PK, rv |-> rv, U |-> IxSeq(V), n |-> nn, nb |-> nb], B2S(ok)))
  /\ pc' = "done" /\ UNCHANGED << objs, cred >>

Next == Start \/ DoCommit \/ DoTrusted \/ DoProve \/ DoIssue \/ LogIssue \/ Branch \/ DoUnblind \/ DoVerify
        \/ DoUpdate \/ DoUnblind2 \/ DoVerify2 \/ Present0 \/ DoPresent \/ DoPVerify

Init == objs = << >> /\ pc = "start" /\ hist = << >> /\ devs = 0 /\ cred = << >>

\* ---- properties ---------------------------------------------------------------
\* C14: whatever the issuer signed after an honest run (no deviation) verifies on the holder's full vector
C14honest == (pc = "done" /\ devs = 0 /\ hist[Len(hist)].op = "VerifySig" /\ hist[Len(hist)].args.ms = cred)
               => hist[Len(hist)].res = "true"
\* C14: the issuer never signs for a proof that is not about the commitment, hidden set and trusted commitment it holds
C14refuses == \A j \in 1 .. Len(hist) :
                (hist[j].op = "BlindSign" /\ hist[j].res = "ok") =>
                   LET a == hist[j].args IN objs[a.zk].ok /\ objs[a.zk].a = a.com /\ objs[a.zk].U = {a.U[k] : k \in 1 .. Len(a.U)}
\* C13: a signature verifies for one vector only (up to trailing zeros)
C13unique == \A s \in 1 .. NObj : objs[s].kind = "sig" =>
               \A v, w \in Creds : (SigOk(s, v) /\ SigOk(s, w) /\ Len(v) = Len(w)) => v = w
\* C15: a presentation verifies only as made
C15asmade == \A j \in 1 .. Len(hist) : (hist[j].op = "ProofVerify" /\ hist[j].res = "true") =>
               LET a == hist[j].args  o == objs[a.spok] IN
               o.ok /\ a.n = Len(o.ms) /\ a.U = IxSeq(o.U) /\ a.rv = Vals(RevOf(o.ms, o.U))

Export == pc = "done" => PrintT(<< "CASE", ToJson(hist) >>)
=============================================================================
