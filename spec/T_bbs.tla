------------------------------- MODULE T_bbs -------------------------------
EXTENDS BBS, TLC
VARIABLE x
Msgs == { <<>>, <<1>>, <<2>> }
Hdrs == { <<>>, <<1>> }
RECURSIVE SeqsUpTo(_, _)
SeqsUpTo(S, n) == IF n = 0 THEN { <<>> } ELSE LET P == SeqsUpTo(S, n-1) IN P \cup { Append(s, e) : s \in {t \in P : Len(t) = n-1}, e \in S }
Vecs == SeqsUpTo(Msgs, 3)

Draws(k, h, n) == [j \in 1..n |-> Rnd(k, <<2, h, j>>)]

SignOk(k, s, key, hdr, ms) ==
  LET a == Api(s, "plain") sc == MsgScs(k, a, ms) g == Gens(k, a, Len(ms)+1)
      sig == CoreSign(k, a, SkOf(k,key), PkOf(k,key), g, hdr, sc)
  IN sig.ok /\ CoreVerify(k, a, PkOf(k,key), sig, g, hdr, sc)

ProofOk(k, s, key, hdr, ph, ms, D) ==
  LET a == Api(s, "plain") sc == MsgScs(k, a, ms) g == Gens(k, a, Len(ms)+1)
      sig == CoreSign(k, a, SkOf(k,key), PkOf(k,key), g, hdr, sc)
      U == Len(ms) - Cardinality(D)
      p == CoreProofGen(k, a, PkOf(k,key), sig, g, hdr, ph, sc, D, Draws(k, 7, 5+U))
      dsq == SortSet(D)
      dp == [j \in 1..Len(dsq) |-> <<dsq[j], sc[dsq[j]+1]>>]
  IN CoreProofVerify(k, a, PkOf(k,key), p, g, hdr, ph, dp, TRUE)

BlindOk(k, s, key, hdr, ms, cms) ==
  LET M == Len(cms)
      rnd == Draws(k, 9, M+2)
      cm == Commit(k, s, cms, rnd)
      a == Api(s, "blind")
      sig == BlindSign(k, s, SkOf(k,key), PkOf(k,key), cm.C, M, hdr, MsgScs(k, a, ms))
  IN CommitVerify(k, s, cm) /\ sig.ok /\ BlindVerify(k, s, PkOf(k,key), sig, hdr, MsgScs(k,a,ms), rnd[1], MsgScs(k,a,cms))

Init == x = 0
Next == x < 1 /\ x' = x + 1
TestInv ==
       /\ \A k \in Samples, s \in Suites, h \in Hdrs, v \in Vecs : SignOk(k, s, 1, h, v)
       /\ \A k \in Samples, s \in Suites, v \in Vecs : \A D \in SUBSET (0..Len(v)-1) : ProofOk(k, s, 1, <<1>>, <<2>>, v, D)
       /\ \A k \in Samples, s \in Suites, v \in SeqsUpTo(Msgs,2), c \in SeqsUpTo(Msgs, 2) : BlindOk(k, s, 1, <<1>>, v, c)
=============================================================================
