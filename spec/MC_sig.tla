------------------------------- MODULE MC_sig -------------------------------
(***************************************************************************)
(* Slice `sig` / `sig_tamper` (properties C01, C02, C11-iii).               *)
(* Two keys; every suite; header in {absent, empty, one octet}; every       *)
(* message vector over three atoms (one of them the empty message) with     *)
(* L <= MaxL; then exactly one of: an honest verification (with absent /    *)
(* empty substitutions, directly or after an encode/decode round trip),     *)
(* a verification of every single edit of the statement, a verification     *)
(* after tampering with the encoded signature, or a verification under the  *)
(* other suite / the blind interface.                                       *)
(***************************************************************************)
EXTENDS MCBase

CONSTANT MaxL

Hdrs  == {NoneO, << >>, << 1 >>}
Vecs  == SeqsUpTo(Atoms, MaxL)
\* how an empty message list / header may be presented
FormsO(x) == IF x = << >> THEN {NoneO, << >>} ELSE {x}
FormsV(x) == IF x = << >> THEN {NoneV, << >>} ELSE {x}

Setup == pc = "setup" /\ Step(KeyGen(IF 1 \in keys THEN 2 ELSE 1))
         /\ pc' = IF 1 \in keys THEN "sign" ELSE "setup"

DoSign == /\ pc = "sign"
          /\ \E s \in Suites, h \in Hdrs, v \in Vecs, f \in {"none", "some"} :
                (f = "none" => v = << >>) /\
                Step(Sign(1, s, h, IF f = "none" THEN NoneV ELSE v))
          /\ pc' = "check"

SigH == NObj    \* the signature under test is the last artefact

Honest == /\ pc = "check" /\ objs[SigH].kind = "sig" /\ objs[SigH].mut = {}
          /\ LET o == objs[SigH] IN
             \E h \in FormsO(o.hdr), m \in FormsV(o.msgs) : Step(Verify(SigH, 1, o.s, h, m))
          /\ pc' = "done"

RT == /\ pc = "check" /\ Len(hist) = 3
      /\ Step(RoundTrip(SigH)) /\ pc' = "check"

EditStmt == /\ pc = "check" /\ objs[SigH].mut = {}
            /\ LET o == objs[SigH] IN
               \/ \E m \in MsgEdits(o.msgs) : Len(m) <= MaxL + 1 /\ Step(Verify(SigH, 1, o.s, o.hdr, m))
               \/ \E h \in {<< >>, << 1 >>, << 2 >>, << 1, 1 >>} \ {o.hdr} : Step(Verify(SigH, 1, o.s, h, o.msgs))
               \/ Step(Verify(SigH, 2, o.s, o.hdr, o.msgs))
               \/ Step(Verify(SigH, 1, Other(o.s), o.hdr, o.msgs))
               \/ Step(VerifyBlind(SigH, 1, o.s, o.hdr, o.msgs, NoneV, NoBl))
               \/ Step(VerifyBlind(SigH, 1, Other(o.s), o.hdr, o.msgs, NoneV, NoBl))
            /\ pc' = "done"

DoTamper == /\ pc = "check" /\ Len(hist) = 3
            /\ \E f \in {{101}, {1}, {101, 1}, {201}} : Step(Tamper(SigH, f, 0))
            /\ pc' = "tampered"
AfterTamper == /\ pc = "tampered"
               /\ LET o == objs[SigH] IN Step(Verify(SigH, 1, o.s, o.hdr, o.msgs))
               /\ pc' = "done"

Next == Setup \/ DoSign \/ Honest \/ RT \/ EditStmt \/ DoTamper \/ AfterTamper

MCInit == Init /\ pc = "setup" /\ hist = << >>
Spec == MCInit /\ [][Next]_mcvars
=============================================================================
