------------------------------- MODULE MCBase -------------------------------
(***************************************************************************)
(* Shared scaffolding of the bounded slices (MC_*.tla): small value         *)
(* universes, edit families, the history variable used to export one case   *)
(* per behaviour, and the export invariant.                                 *)
(***************************************************************************)
EXTENDS Api, Json

VARIABLES pc, hist

mcvars == << keys, objs, last, pc, hist >>

\* abstract octet strings
MA == << 1 >>
MB == << 2 >>
ME == << >>            \* the empty message
Atoms == {MA, MB, ME}

RECURSIVE SeqsUpTo(_, _)
SeqsUpTo(S, n) ==
  IF n = 0 THEN {<< >>}
  ELSE LET P == SeqsUpTo(S, n - 1)
       IN  P \cup {Append(s, e) : s \in {t \in P : Len(t) = n - 1}, e \in S}

\* single edits of a message vector
Changes(ms)  == {[ms EXCEPT ![j] = m] : j \in 1 .. Len(ms), m \in Atoms} \ {ms}
Inserts(ms)  == {SubSeq(ms, 1, j) \o << m >> \o SubSeq(ms, j + 1, Len(ms)) : j \in 0 .. Len(ms), m \in Atoms}
Deletes(ms)  == {SubSeq(ms, 1, j - 1) \o SubSeq(ms, j + 1, Len(ms)) : j \in 1 .. Len(ms)}
Swaps(ms)    == {[ms EXCEPT ![j1] = ms[j2], ![j2] = ms[j1]] : j1, j2 \in 1 .. Len(ms)} \ {ms}
MsgEdits(ms) == (Changes(ms) \cup Inserts(ms) \cup Deletes(ms) \cup Swaps(ms)) \ {ms}

Other(s) == IF s = "sha" THEN "shake" ELSE "sha"

\* every behaviour that reaches pc = "done" is exported as one case
Export == pc = "done" => PrintT(<< "CASE", ToJson(hist) >>)

Step(A) == A /\ hist' = Append(hist, last')
=============================================================================
