------------------------------- MODULE MC_det -------------------------------
(***************************************************************************)
(* Slice `det` (properties C10, C11-ii): the deterministic operations       *)
(* (key generation, hash-to-scalar, message mapping, generator creation)    *)
(* as functions of their arguments, with the size limits of draft-08, and   *)
(* their independence of thread schedules: several threads execute calls    *)
(* in every interleaving; the result of a call is a function of its         *)
(* arguments only (there is no shared variable for a schedule to act on).   *)
(* The grid of argument classes is exported and replayed against the        *)
(* library and the reference evaluator, from one thread and from 16.        *)
(***************************************************************************)
EXTENDS Integers, Sequences, FiniteSets, Json, TLC

VARIABLES pc, inp, done, results

\* ---- limits (draft-08 KeyGen, hash_to_scalar) ----------------------------------
NoneLen == -1
KeyGenRes(ikm, info, dst) == IF ikm < 32 \/ info > 65535 \/ dst > 255 THEN "Err" ELSE "Ok"
H2SRes(dst) == IF dst > 255 THEN "Err" ELSE "Ok"

IkmLens  == {0, 31, 32, 33, 64, 1000}
InfoLens == {NoneLen, 0, 1, 255, 256, 65535, 65536}
DstLens  == {NoneLen, 1, 16, 255, 256}
MsgLens  == {0, 1, 32, 255, 256, 257, 65535}
ApiIds   == {"plain", "blind", "blindgen", "none", "empty", "custom", "custom2",
             "long236", "long237b", "long237c", "long300x", "long300y",     \* long ids agreeing on a long prefix
             "bin_ff", "bin_fe", "bin_c0", "bin_fffd"}                      \* ids that are not UTF-8, differing in ill-formed octets only
Counts   == {0, 1, 2, 3, 16, 33, 64, 65, 66, 67, 130}

\* ---- the deterministic operations, abstractly: a result is a function of the arguments
F(call) == << "result-of", call >>

Calls == {[op |-> "gens", api |-> a, n |-> n, suite |-> s] : a \in {"none", "custom"}, n \in {1, 3}, s \in {"sha", "shake"}}
Threads == {1, 2}

Grid ==
  /\ pc = "go"
  /\ \/ \E i \in IkmLens, f \in InfoLens, d \in DstLens :
          inp' = [kind |-> "keygen", ikm |-> i, info |-> f, dst |-> d, res |-> KeyGenRes(i, f, d)]
     \/ \E m \in MsgLens, d \in DstLens \ {NoneLen} :
          inp' = [kind |-> "h2s", msg |-> m, dst |-> d, res |-> H2SRes(d)]
     \/ \E m \in MsgLens : inp' = [kind |-> "mapmsg", msg |-> m, res |-> "Ok"]
     \/ \E a \in ApiIds, n \in Counts : inp' = [kind |-> "gens", api |-> a, n |-> n, res |-> "Ok"]
     \* prepare_parameters(messages, committed_messages, L + 1, M + 1, blind, api_id): the generator list is
     \* create(L + 1, api) followed by create(M + 1, "BLIND_" || api), with api absent = empty
     \/ \E a \in {"blind", "none", "empty", "custom"}, L \in {0, 2}, M \in {0, 3} :
          inp' = [kind |-> "prepare", api |-> a, L |-> L, M |-> M, res |-> "Ok"]
  /\ pc' = "done" /\ UNCHANGED << done, results >>

\* ---- schedules: every interleaving of the calls of two threads ----------------------
Run(t) ==
  /\ pc = "sched"
  /\ \E c \in Calls : << t, c >> \notin done
       /\ done' = done \cup {<< t, c >>}
       /\ results' = results \cup {[thr |-> t, call |-> c, res |-> F(c)]}
  /\ UNCHANGED << pc, inp >>
StartSched == pc = "go" /\ pc' = "sched" /\ UNCHANGED << inp, done, results >>

Init == pc = "go" /\ inp = [kind |-> "none"] /\ done = {} /\ results = {}
Next == Grid \/ StartSched \/ \E t \in Threads : Run(t)

\* C10 (schedules): whatever the interleaving, equal calls gave equal results on every thread
Deterministic == \A r1, r2 \in results : r1.call = r2.call => r1.res = r2.res
Export == pc = "done" => PrintT(<< "CASE", ToJson(inp) >>)
=============================================================================
