----------------------------- MODULE MC_update ------------------------------
(***************************************************************************)
(* Slice `update` (property C12): a signature followed by EVERY history of  *)
(* up to Depth single-message updates at every position with every new      *)
(* value, stating the correct or a wrong old value, including out-of-range  *)
(* positions; after any prefix of the history the current signature is      *)
(* verified against the current (intended) vector and against every        *)
(* earlier vector.                                                          *)
(***************************************************************************)
EXTENDS MCBase

CONSTANTS MaxL, Depth, CrossSuite

VARIABLES cur, seen, nup      \* intended current vector, earlier vectors, updates done
uvars == << keys, objs, last, pc, hist, cur, seen, nup >>

Vecs == {v \in SeqsUpTo(Atoms, MaxL) : Len(v) >= 1}

Setup == /\ pc = "setup" /\ Step(KeyGen(1)) /\ pc' = "sign" /\ UNCHANGED << cur, seen, nup >>

DoSign == /\ pc = "sign"
          /\ \E s \in Suites, h \in {NoneO, << 1 >>}, v \in Vecs :
                Step(Sign(1, s, h, v)) /\ cur' = v
          /\ seen' = {} /\ nup' = 0 /\ pc' = "run"

SH == NObj
WrongOld(m) == CHOOSE x \in Atoms : x # m

DoUpdate ==
  /\ pc = "run" /\ nup < Depth
  /\ LET o == objs[SH]
         L == Len(cur)
     IN  \E us \in (IF CrossSuite THEN Suites ELSE {o.s}), i \in 0 .. L - 1, new \in Atoms, wrong \in BOOLEAN :
            /\ Step(Update(SH, 1, us, IF wrong THEN WrongOld(cur[i + 1]) ELSE cur[i + 1], new, i, L))
            /\ cur' = [cur EXCEPT ![i + 1] = new]
            /\ seen' = seen \cup {cur}
  /\ nup' = nup + 1 /\ pc' = "run"

\* out-of-range positions and mis-stated vector lengths are refused (or harmless)
DoBadIndex ==
  /\ pc = "run" /\ nup < Depth
  /\ LET L == Len(cur) IN
     \E i \in {L, L + 1}, n \in {L, L + 1} : Step(Update(SH, 1, objs[SH].s, cur[1], MB, i, n))
  /\ pc' = "done" /\ UNCHANGED << cur, seen, nup >>

DoVerify ==
  /\ pc = "run"
  /\ \E v \in {cur} \cup seen : Step(Verify(SH, 1, objs[SH].s, objs[SH].hdr, v))
  /\ pc' = "done" /\ UNCHANGED << cur, seen, nup >>

Next == Setup \/ DoSign \/ DoUpdate \/ DoBadIndex \/ DoVerify

MCInit == Init /\ pc = "setup" /\ hist = << >> /\ cur = << >> /\ seen = {} /\ nup = 0

\* C12 at the level of the scenario: the current signature verifies for the intended
\* current vector iff every update stated the right old value (net effect), and never
\* for an earlier, different vector
C12scn == (pc = "done" /\ last.op = "Verify") => (last.res = last.prov)
=============================================================================
