-------------------------------- MODULE Rng --------------------------------
(***************************************************************************)
(* The randomness source of the BBS operations (property C07).              *)
(*                                                                          *)
(* Every thread of every process owns a stream of draws; a draw is          *)
(* identified by <<thread, position>> and is, in the intended design,       *)
(* globally unique and independent of every other draw.  The randomised     *)
(* operations consume draws and assign them to named slots:                 *)
(*   proof_gen / blind_proof_gen with U undisclosed messages:               *)
(*        r1, r2, e~, r1~, r3~, m~_1 .. m~_U          (5 + U draws)         *)
(*   commit to M messages: secret_prover_blind, s~, m~_1 .. m~_M (M + 2)     *)
(*   KeyPair::random: key material (1 draw); BlindFactor::random (1 draw)   *)
(* Several operations run concurrently on different threads; each draw is   *)
(* an atomic step, so TLC explores every interleaving.                      *)
(*                                                                          *)
(* Shared = TRUE models the defect "all threads replay one per-process      *)
(* stream" (every thread's n-th draw has the same value): it violates       *)
(* Fresh, which shows the invariant is not vacuous.                         *)
(***************************************************************************)
EXTENDS Integers, Sequences, FiniteSets

CONSTANTS Threads,        \* set of thread identifiers
          Jobs,           \* Jobs[t] = sequence of operations thread t performs: [kind, n]
          Shared          \* FALSE: independent streams (intended); TRUE: the defect

VARIABLES pos,            \* pos[t]  = number of draws thread t has made
          job,            \* job[t]  = index of the operation thread t is executing
          got,            \* got[t]  = number of draws made for the current operation
          used            \* set of [val, art, slot]: value drawn, artefact <<t, job>>, slot index

rvars == << pos, job, got, used >>

Need(op) == CASE op.kind = "proof"  -> 5 + op.n
              [] op.kind = "commit" -> op.n + 2
              [] op.kind = "key"    -> 1
              [] op.kind = "blind"  -> 1

SlotName(op, j) ==
  CASE op.kind = "proof"  -> IF j <= 5 THEN << "r1", "r2", "e~", "r1~", "r3~" >>[j] ELSE "m~"
    [] op.kind = "commit" -> IF j = 1 THEN "secret_prover_blind" ELSE IF j = 2 THEN "s~" ELSE "m~"
    [] OTHER              -> "secret"

\* the value of the n-th draw of thread t
Val(t, n) == IF Shared THEN << "all", n >> ELSE << t, n >>

Init == /\ pos = [t \in Threads |-> 0] /\ job = [t \in Threads |-> 1]
        /\ got = [t \in Threads |-> 0] /\ used = {}

Draw(t) ==
  /\ job[t] <= Len(Jobs[t])
  /\ LET op == Jobs[t][job[t]] IN
     /\ got[t] < Need(op)
     /\ used' = used \cup {[val |-> Val(t, pos[t] + 1), art |-> << t, job[t] >>, slot |-> got[t] + 1]}
     /\ pos' = [pos EXCEPT ![t] = @ + 1]
     /\ got' = [got EXCEPT ![t] = @ + 1]
     /\ UNCHANGED job

Finish(t) ==
  /\ job[t] <= Len(Jobs[t])
  /\ got[t] = Need(Jobs[t][job[t]])
  /\ job' = [job EXCEPT ![t] = @ + 1] /\ got' = [got EXCEPT ![t] = 0]
  /\ UNCHANGED << pos, used >>

Next == \E t \in Threads : Draw(t) \/ Finish(t)

\* C07: no value is assigned to two slots -- within an artefact, across artefacts, across threads
Fresh == \A u, v \in used : (u.art # v.art \/ u.slot # v.slot) => u.val # v.val
\* every finished operation consumed exactly its slots, in order
Consumption ==
  \A t \in Threads : \A j \in 1 .. Len(Jobs[t]) :
     j < job[t] => Cardinality({u \in used : u.art = << t, j >>}) = Need(Jobs[t][j])
=============================================================================
