CONSTANT K = 3
INIT Init
NEXT Next
INVARIANT TestInv
