--------------------------- MODULE ExportLayouts ---------------------------
EXTENDS Layouts, Json, TLC
ASSUME PrintT(<<"LAYOUTS", ToJson(LayoutExport)>>)
VARIABLE x
Init == x = 0
Next == UNCHANGED x
=============================================================================
