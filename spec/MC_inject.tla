----------------------------- MODULE MC_inject ------------------------------
(***************************************************************************)
(* Slice `inject` (property C11, part i): every hash input the BBS          *)
(* operations build is an INJECTIVE encoding of its argument tuple -- two   *)
(* different tuples never produce the same octet string under the same      *)
(* domain-separation tag.  The layouts of Layouts.tla are instantiated with *)
(* real octet strings over the alphabet {0, 1} and shrunken fixed widths    *)
(* (u64 / len64 -> 2 octets, len16 -> 2 octets, point / scalar / key -> 1   *)
(* octet); variable parts: header / presentation header / key material /    *)
(* key info up to 2 octets, up to 2 generators, messages and disclosed      *)
(* pairs.  Injectivity is decided by counting: |{Bytes(e)}| = |{e}|.        *)
(***************************************************************************)
EXTENDS Integers, Sequences, FiniteSets, Layouts, TLC

VARIABLE x

Sym == {0, 1}
I2(n) == << n \div 2, n % 2 >>                       \* I2OSP(n, 2) over base-2 octets, n < 4
Octs == {<< >>} \cup {<< a >> : a \in Sym} \cup {<< a, b >> : a \in Sym, b \in Sym}
Pts(n) == IF n = 0 THEN {<< >>} ELSE IF n = 1 THEN {<< a >> : a \in Sym} ELSE {<< a, b >> : a \in Sym, b \in Sym}
PairSeqs == {<< >>} \cup {<< << i, m >> >> : i \in 0 .. 3, m \in Sym}
            \cup {<< << i, m >>, << j, n >> >> : i \in 0 .. 3, j \in 0 .. 3, m \in Sym, n \in Sym}

RECURSIVE FlatI(_, _)
FlatI(ss, i) == IF i > Len(ss) THEN << >> ELSE ss[i] \o FlatI(ss, i + 1)

FieldBytes(f, env) ==
  CASE f.k = "lit"   -> << 1, 0, 1 >>
    [] f.k = "oct"   -> env[f.n]
    [] f.k = "u64"   -> I2(env[f.n])
    [] f.k = "len64" -> I2(Len(env[f.n]))
    [] f.k = "len16" -> I2(Len(env[f.n]))
    [] f.k = "pk"    -> << env[f.n] >>
    [] f.k = "pt"    -> << env[f.n] >>
    [] f.k = "pts"   -> env[f.n]
    [] f.k = "sc"    -> << env[f.n] >>
    [] f.k = "scs"   -> env[f.n]
    [] f.k = "pairs" -> FlatI([j \in 1 .. Len(env[f.n]) |-> I2(env[f.n][j][1]) \o << env[f.n][j][2] >>], 1)
Bytes(fields, env) == FlatI([j \in 1 .. Len(fields) |-> FieldBytes(fields[j], env)], 1)

API == << 0, 1 >>            \* the api_id is a constant of the interface (it is also part of the DST)

DomainEnvs == {[pk |-> p, L |-> Len(h), Q1 |-> q, H |-> h, api |-> API, hdr |-> d] :
                 p \in Sym, q \in Sym, h \in Pts(0) \cup Pts(1) \cup Pts(2), d \in Octs}
SigEEnvs   == {[sk |-> s, msgs |-> m, domain |-> d] : s \in Sym, d \in Sym, m \in Pts(0) \cup Pts(1) \cup Pts(2)}
ChalEnvs   == {[R |-> Len(pr), disc |-> pr, Abar |-> a, Bbar |-> 0, D |-> 1, T1 |-> 0, T2 |-> t, domain |-> d, ph |-> p] :
                 pr \in PairSeqs, a \in Sym, t \in Sym, d \in Sym, p \in Octs}
BChalEnvs  == {[M |-> Len(g) - 1, bgens |-> g, C |-> c, Cbar |-> b] : g \in Pts(1) \cup Pts(2), c \in Sym, b \in Sym}
BSigEEnvs  == {[sk |-> s, B |-> b] : s \in Sym, b \in Sym}
GenIterEnvs == {[v |-> v, i |-> i] : v \in Pts(2), i \in 0 .. 3}          \* v has a fixed length (expand_len)
KeyGenEnvs == {[ikm |-> k, key_info |-> i] : k \in Octs, i \in Octs}

Injective(fields, envs) == Cardinality({Bytes(fields, e) : e \in envs}) = Cardinality(envs)

Init == x = 0
Next == UNCHANGED x

InjDomain    == Injective(DomainL, DomainEnvs)
InjSigE      == Injective(SigEL, SigEEnvs)
InjChallenge == Injective(ChallengeL, ChalEnvs)
InjBlindChal == Injective(BlindChallengeL, BChalEnvs)
InjBlindSigE == Injective(BlindSigEL, BSigEEnvs)
InjGenIter   == Injective(GenIterL, GenIterEnvs)
\* informational: key generation hashes key_material || I2OSP(len(key_info), 2) || key_info with a
\* key material of arbitrary length and no length prefix (draft-08 KeyGen) -- reported, not claimed
KeyGenCollisions == Cardinality(KeyGenEnvs) - Cardinality({Bytes(KeyGenL, e) : e \in KeyGenEnvs})
Report == PrintT(<< "INJECT", "domain", Cardinality(DomainEnvs), "challenge", Cardinality(ChalEnvs),
                    "sig_e", Cardinality(SigEEnvs), "blind_challenge", Cardinality(BChalEnvs),
                    "keygen_tuples", Cardinality(KeyGenEnvs), "keygen_collisions", KeyGenCollisions >>)
=============================================================================
