------------------------------ MODULE MC_shape ------------------------------
(***************************************************************************)
(* Slice `shape`: the same Api actions at vector lengths far beyond what    *)
(* the toy interpretation can evaluate (L up to thousands).  Calls above    *)
(* MechBound are decided from provenance only; the bounded slices establish *)
(* Mech = Prov, and the octet-level conformance of the replayer binds the   *)
(* code to the specification at these lengths.  TLC enumerates the shape    *)
(* classes: lengths around every threshold (0, 1, 2, 31..33, 127..130,      *)
(* 255..257, ...), edit positions {first, middle, last}, disclosure         *)
(* patterns {none, all, first, last, all but last, alternating}.            *)
(***************************************************************************)
EXTENDS MCBase

CONSTANTS Ls, Ms,        \* sets of vector lengths (signer / committed)
          Fam           \* "sig", "proof", "blind", "all" or "sweep": which family of behaviours to enumerate

Pat(L, off) == [j \in 1 .. L |-> << ((j + off) % 3) + 1 >>]     \* messages <<1>>, <<2>>, <<3>> repeating
FRESH == << 9 >>
Positions(L) == IF L = 0 THEN {} ELSE {1, (L + 1) \div 2, L}
SwapPos(L) == {p \in {1, 2, 3, (L + 1) \div 2, L - 1} : p >= 1 /\ p + 1 <= L}

Setup == pc = "setup" /\ Step(KeyGen(1)) /\ pc' = "go"

\* ---- plain signatures ------------------------------------------------------
DoSign == /\ pc = "go"
          /\ \E s \in Suites, L \in Ls : Step(Sign(1, s, << 1 >>, Pat(L, 0)))
          /\ pc' = "sig"
SH == NObj
SigHonest == /\ pc = "sig" /\ Step(Verify(SH, 1, objs[SH].s, objs[SH].hdr, objs[SH].msgs)) /\ pc' = "done"
SigEdit ==
  /\ pc = "sig"
  /\ LET o == objs[SH]  L == Len(o.msgs) IN
     \/ \E p \in Positions(L) : Step(Verify(SH, 1, o.s, o.hdr, [o.msgs EXCEPT ![p] = FRESH]))
     \/ \E p \in Positions(L) : Step(Verify(SH, 1, o.s, o.hdr, SubSeq(o.msgs, 1, p - 1) \o SubSeq(o.msgs, p + 1, L)))
     \/ \E p \in Positions(L) \cup {0} : Step(Verify(SH, 1, o.s, o.hdr, SubSeq(o.msgs, 1, p) \o << FRESH >> \o SubSeq(o.msgs, p + 1, L)))
     \* two neighbouring messages exchanged (near the start, in the middle, at the end), and the second with the last
     \/ \E p \in SwapPos(L) : Step(Verify(SH, 1, o.s, o.hdr, [o.msgs EXCEPT ![p] = o.msgs[p + 1], ![p + 1] = o.msgs[p]]))
     \/ L >= 4 /\ o.msgs[2] # o.msgs[L] /\ Step(Verify(SH, 1, o.s, o.hdr, [o.msgs EXCEPT ![2] = o.msgs[L], ![L] = o.msgs[2]]))
     \* two messages a block apart exchanged (blocks of 32, 64, 128, 256 positions)
     \/ \E d \in {32, 64, 128, 256} : \E p \in {1, 2} :
           /\ p + d <= L /\ o.msgs[p] # o.msgs[p + d]
           /\ Step(Verify(SH, 1, o.s, o.hdr, [o.msgs EXCEPT ![p] = o.msgs[p + d], ![p + d] = o.msgs[p]]))
  /\ pc' = "done"
SigUpdate ==
  /\ pc = "sig"
  /\ LET o == objs[SH]  L == Len(o.msgs) IN
     \E p \in Positions(L) \cup {L + 1} :
        Step(Update(SH, 1, o.s, IF p <= L THEN o.msgs[p] ELSE FRESH, FRESH, p - 1, L))
  /\ pc' = "upd"
AfterUpdate ==
  /\ pc = "upd"
  /\ LET o == objs[SH] IN
     IF o.ups = << >> THEN Step(Verify(SH, 1, o.s, o.hdr, o.msgs))             \* refused update: original still valid
     ELSE \/ Step(Verify(SH, 1, o.s, o.hdr, [o.msgs EXCEPT ![o.ups[1].idx + 1] = FRESH]))
          \/ Step(Verify(SH, 1, o.s, o.hdr, o.msgs))
  /\ pc' = "done"

\* ---- proofs ------------------------------------------------------------------
DPats(L) == {{}, 0 .. L - 1, {0} \cap (0 .. L - 1), {L - 1} \cap (0 .. L - 1), 0 .. L - 2, {i \in 0 .. L - 1 : i % 2 = 0}}
DoGen == /\ pc = "sig"
         /\ LET o == objs[SH] IN \E D \in DPats(Len(o.msgs)) :
               Step(ProofGen(SH, 1, o.s, o.hdr, << 2 >>, o.msgs, SortSet(D)))
         /\ pc' = "proof"
PH == NObj
Disc(p) == LET ix == SortSet(p.D) IN [j \in 1 .. Len(ix) |-> p.msgs[ix[j] + 1]]
ProofHonest == /\ pc = "proof"
               /\ LET p == objs[PH] IN Step(ProofVerify(PH, 1, p.s, p.hdr, p.ph, Disc(p), SortSet(p.D)))
               /\ pc' = "done"
ProofEdit ==
  /\ pc = "proof"
  /\ LET p == objs[PH]  dm == Disc(p)  ix == SortSet(p.D)  R == Len(ix) IN
     \/ \E j \in Positions(R) : Step(ProofVerify(PH, 1, p.s, p.hdr, p.ph, [dm EXCEPT ![j] = FRESH], ix))
     \/ R >= 1 /\ Step(ProofVerify(PH, 1, p.s, p.hdr, p.ph, SubSeq(dm, 1, R - 1), SubSeq(ix, 1, R - 1)))
     \/ R >= 2 /\ dm[R - 1] # dm[R] /\ Step(ProofVerify(PH, 1, p.s, p.hdr, p.ph, [dm EXCEPT ![R - 1] = dm[R], ![R] = dm[R - 1]], ix))
     \/ Step(ProofVerify(PH, 1, p.s, << 2 >>, p.ph, dm, ix))
  /\ pc' = "done"

\* the proof octets extended / truncated by whole scalars, presented for the honest statement
ProofResize == /\ pc = "proof"
               /\ \E d \in {-1, 1, 2} : Step(Tamper(PH, {}, d))
               /\ pc' = "resized"
AfterResize == /\ pc = "resized"
               /\ LET p == objs[PH] IN Step(ProofVerify(PH, 1, p.s, p.hdr, p.ph, Disc(p), SortSet(p.D)))
               /\ pc' = "done"

\* ---- blind interface ------------------------------------------------------------
DoCommit == /\ pc = "go"
            /\ \E s \in Suites, M \in Ms : Step(CommitA(s, Pat(M, 1)))
            /\ pc' = "commit"
DoBlindSign == /\ pc = "commit"
               /\ \E L \in Ls : L <= 257 /\ Step(BlindSignA(1, objs[1].s, 1, << 1 >>, Pat(L, 0)))
               /\ pc' = "bsig"
BlindHonest == /\ pc = "bsig"
               /\ LET o == objs[SH] IN Step(VerifyBlind(SH, 1, o.s, o.hdr, o.msgs, objs[1].cms, BlOf(1)))
               /\ pc' = "done"
BlindEdit ==
  /\ pc = "bsig"
  /\ LET o == objs[SH]  c == objs[1].cms IN
     \/ \E p \in Positions(Len(c)) : Step(VerifyBlind(SH, 1, o.s, o.hdr, o.msgs, [c EXCEPT ![p] = FRESH], BlOf(1)))
     \/ \E p \in Positions(Len(o.msgs)) : Step(VerifyBlind(SH, 1, o.s, o.hdr, [o.msgs EXCEPT ![p] = FRESH], c, BlOf(1)))
     \/ Step(VerifyBlind(SH, 1, o.s, o.hdr, o.msgs, c, NoBl))
  /\ pc' = "done"
\* the signer is shown a commitment (to many messages) with one response or the point replaced
ShapeBadCommit ==
  /\ pc = "commit"
  /\ LET M == Len(objs[1].cms) IN
     \* s^, m^_1 and the last scalar (field codes above 100 name points: the last scalar only while M + 2 <= 100)
     \/ \E j \in {1, 2, IF M + 2 <= 100 THEN M + 2 ELSE 2} : Step(Tamper(1, {j}, 0))
     \/ Step(Tamper(1, {101}, 0))
  /\ pc' = "badcommit"
ShapeSignBad == /\ pc = "badcommit" /\ Step(BlindSignA(1, objs[1].s, NObj, << 1 >>, << << 1 >> >>)) /\ pc' = "done"
DoBlindGen ==
  /\ pc = "bsig"
  /\ LET o == objs[SH]  c == objs[1].cms IN
     \E D \in {{}, 0 .. Len(o.msgs) - 1, {Len(o.msgs) - 1} \cap (0 .. Len(o.msgs) - 1)},
        CD \in {{}, 0 .. Len(c) - 1, {Len(c) - 1} \cap (0 .. Len(c) - 1)} :
        Step(BlindProofGen(SH, 1, o.s, o.hdr, << 2 >>, o.msgs, c, SortSet(D), SortSet(CD), BlOf(1)))
  /\ pc' = "bproof"
VD(p)  == SortSet({i \in p.D : i < Len(p.msgs)})
VCD(p) == SortSet({i - Len(p.msgs) - 1 : i \in {x \in p.D : x > Len(p.msgs)}})
VM(p)  == LET ix == VD(p) IN [j \in 1 .. Len(ix) |-> p.msgs[ix[j] + 1]]
VCM(p) == LET ix == VCD(p) IN [j \in 1 .. Len(ix) |-> p.cms[ix[j] + 1]]
BlindProofHonest ==
  /\ pc = "bproof"
  /\ LET p == objs[PH] IN Step(BlindProofVerify(PH, 1, p.s, p.hdr, p.ph, Len(p.msgs), VM(p), VCM(p), VD(p), VCD(p)))
  /\ pc' = "done"
BlindProofEdit ==
  /\ pc = "bproof"
  /\ LET p == objs[PH]  cm == VCM(p)  dm == VM(p) IN
     \/ Len(cm) >= 1 /\ Step(BlindProofVerify(PH, 1, p.s, p.hdr, p.ph, Len(p.msgs), dm, [cm EXCEPT ![Len(cm)] = FRESH], VD(p), VCD(p)))
     \/ Len(dm) >= 1 /\ Step(BlindProofVerify(PH, 1, p.s, p.hdr, p.ph, Len(p.msgs), [dm EXCEPT ![Len(dm)] = FRESH], cm, VD(p), VCD(p)))
     \/ Step(BlindProofVerify(PH, 1, p.s, p.hdr, p.ph, Len(p.msgs) + 1, dm, cm, VD(p), VCD(p)))
  /\ pc' = "done"

\* ---- sweep: every length of a range exactly once (honest runs only) -----------------------------------
\* Thresholds hide anywhere (a word size, a window of a multi-scalar multiplication, a buffer limit): the
\* sweep signs, verifies, proves and verifies a proof for EVERY L in Ls, and commits, blind-signs, verifies
\* and proves for every M in Ms (suites alternate with the length).
SuiteOf(n) == IF n % 2 = 0 THEN "sha" ELSE "shake"
SwSign == /\ pc = "go" /\ \E L \in Ls : Step(Sign(1, SuiteOf(L), << 1 >>, Pat(L, 0))) /\ pc' = "swsig"
SwVerify == /\ pc = "swsig" /\ Step(Verify(SH, 1, objs[SH].s, objs[SH].hdr, objs[SH].msgs)) /\ pc' = "done"
SwGen == /\ pc = "swsig"
         /\ LET o == objs[SH]  L == Len(o.msgs) IN
            \E D \in {IF L = 0 THEN {} ELSE {L - 1}, IF L >= 2 THEN {0, L \div 2} ELSE {}} :
               Step(ProofGen(SH, 1, o.s, o.hdr, << 2 >>, o.msgs, SortSet(D)))
         /\ pc' = "proof"
SwCommit == /\ pc = "go" /\ \E M \in Ms : Step(CommitA(SuiteOf(M), Pat(M, 1))) /\ pc' = "swcommit"
SwBlindSign == /\ pc = "swcommit" /\ \E L \in {1} : Step(BlindSignA(1, objs[1].s, 1, << 1 >>, Pat(L, 0))) /\ pc' = "swbsig"
SwBlindVerify == /\ pc = "swbsig"
                 /\ LET o == objs[SH] IN Step(VerifyBlind(SH, 1, o.s, o.hdr, o.msgs, objs[1].cms, BlOf(1)))
                 /\ pc' = "done"
SwBlindGen == /\ pc = "swbsig"
              /\ LET o == objs[SH]  c == objs[1].cms IN
                 Step(BlindProofGen(SH, 1, o.s, o.hdr, << 2 >>, o.msgs, c, << >>, SortSet(IF Len(c) = 0 THEN {} ELSE {Len(c) - 1}), BlOf(1)))
              /\ pc' = "bproof"

Next == \/ Setup
        \/ (Fam = "sweep" /\ (SwSign \/ SwVerify \/ SwGen \/ ProofHonest \/ SwCommit \/ SwBlindSign \/ SwBlindVerify \/ SwBlindGen \/ BlindProofHonest))
        \/ (Fam \in {"sig", "proof", "all"} /\ DoSign)
        \/ (Fam \in {"sig", "all"} /\ (SigHonest \/ SigEdit \/ SigUpdate \/ AfterUpdate))
        \/ (Fam \in {"proof", "all"} /\ (DoGen \/ ProofHonest \/ ProofEdit \/ ProofResize \/ AfterResize))
        \/ (Fam \in {"blind", "all"} /\ (DoCommit \/ DoBlindSign \/ BlindHonest \/ BlindEdit \/ DoBlindGen \/ BlindProofHonest \/ BlindProofEdit \/ ShapeBadCommit \/ ShapeSignBad))

MCInit == Init /\ pc = "setup" /\ hist = << >>
=============================================================================
