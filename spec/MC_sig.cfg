CONSTANTS
  K = 3
  Dev = {}
  MaxL = 2
INIT MCInit
NEXT Next
INVARIANTS C01 C02 Refines Export
CHECK_DEADLOCK FALSE
