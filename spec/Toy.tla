-------------------------------- MODULE Toy --------------------------------
(***************************************************************************)
(* The toy interpretation (DESIGN section 3.2).                            *)
(*                                                                          *)
(* Scalars live in the prime field Z_Q, Q = 32749 (products stay below      *)
(* 2^31, TLC's integer range).  A group element of G1 or G2 is represented  *)
(* by its discrete logarithm, the pairing e(a, b) is the product a * b, the *)
(* identity is 0.  A hash output is a pseudo-random field element           *)
(* determined by the sample index, the domain-separation tag and the        *)
(* *evaluated* input octets (as a token stream), so equal octets hash       *)
(* equally whatever path computed them and different octets hash            *)
(* independently (collision-free hash, generic group).  A verification      *)
(* equation is accepted by the model iff it holds under all K samples.      *)
(***************************************************************************)
EXTENDS Integers, Sequences

Q == 32749

Ad(a, b) == (a + b) % Q
Sb(a, b) == (a + (Q - b)) % Q
Mu(a, b) == (a * b) % Q
Ng(a)    == (Q - a) % Q

RECURSIVE PowQ(_, _)
PowQ(a, n) == IF n = 0 THEN 1
              ELSE LET h  == PowQ(a, n \div 2)
                       hh == Mu(h, h)
                   IN  IF n % 2 = 1 THEN Mu(hh, a) ELSE hh
Inv(a) == PowQ(a, Q - 2)            \* Inv(0) = 0; callers guard

NZ(x) == IF x = 0 THEN 1 ELSE x

\* non-linear mixing: x |-> x^5 is a permutation of Z_Q (gcd(5, Q-1) = 1)
Mix(a, b) ==
  LET x  == ((a * 211) + (b * 3) + 17) % Q
      x2 == Mu(x, x)
      x4 == Mu(x2, x2)
      x5 == Mu(x4, x)
  IN  (x5 + Mu(a, 7) + Mu(b, b) + 3) % Q

RECURSIVE Fold(_, _, _)
Fold(h, s, i) == IF i > Len(s) THEN h ELSE Fold(Mix(h, s[i]), s, i + 1)

\* hash of a token stream under a seed
Hash(seed, toks) == Fold(Mix(seed % Q, 7919), toks, 1)

\* a token: (kind tag, value)
Tok(tag, v) == Mix(tag, v % Q)

\* token kinds
TU64 == 1   \* I2OSP(n, 8)
TU16 == 2   \* I2OSP(n, 2)
TOCT == 3   \* one octet of a raw octet string
TPK  == 4   \* compressed G2 point
TPT  == 5   \* compressed G1 point
TSC  == 6   \* 32-octet scalar
TLIT == 7   \* literal ASCII string

\* independent pseudo-random leaves (secrets, random draws) per sample
Rnd(k, ids) == NZ(Hash(Mix(k, 30011), ids))

\* concatenation of a sequence of sequences
RECURSIVE Flat(_, _)
Flat(ss, i) == IF i > Len(ss) THEN << >> ELSE ss[i] \o Flat(ss, i + 1)
=============================================================================
