------------------------------- MODULE MC_cl --------------------------------
(***************************************************************************)
(* Bounded slices of CL03.tla:                                              *)
(*  cl_sig    (C13) every toy key, every attribute vector with n <= MaxN,    *)
(*            every admissible e, every derivation with coefficients in      *)
(*            -2 .. 2: honest signatures verify; a derived pair verifies     *)
(*            only if the attribute vector is unchanged                      *)
(*  boudot    (C16) every part of the decomposition is certified             *)
(*  cl_format (C15, C17) every carried leaf is used; no opening is carried   *)
(*  cl_masks  (C19) every response masks its secret; no quotient leaks       *)
(*  cl_keys   (C18) on every toy modulus from safe primes below Bound the    *)
(*            accept conditions of the generation procedures imply           *)
(*            well-formedness                                                *)
(* The derivations are exported as cases and replayed on real keys.          *)
(***************************************************************************)
EXTENDS CL03, Json, TLC

CONSTANTS MaxN, Bound

VARIABLE x
Init == x = 0
Next == UNCHANGED x

Coefs == -2 .. 2
Vecs(S, n) == [1 .. n -> S]
Derivs(n) == {<< al, be >> : al \in Vecs(Coefs, n), be \in -1 .. 1}
Zero(n) == [i \in 1 .. n |-> 0]

C13toy ==
  \A k \in ToyKeys : \A n \in 1 .. MaxN : \A ms \in Vecs(0 .. Pow2(ToyLm) - 1, n) : \A e \in ToyEs(k) : \A s \in {3, 11} :
    LET sig == SignToy(k, ms, e, s) IN
    /\ VerifyToy(k, sig, ms)                                          \* whatever is signed verifies
    /\ \A d \in Derivs(n) :
         LET f == Derive(k, sig, ms, d[1], d[2]) IN
         VerifyToy(k, f.sig, f.ms) => f.ms = ms                       \* nothing else does

C16anchored == Anchored
\* every toy interval [a, a + w]: only in-range values are acceptable, every in-range value is provable
C16tolerance == \A a \in 0 .. 5 : \A w \in {1, 2, 3, 4, 7, 8, 15} :
                  BoudotSound(2, a, a + w) /\ (("F13" \notin Dev) => BoudotComplete(2, a, a + w))
Hidden == {{}, {0}, {1}, {0, 1}}
C15used == /\ \A U \in Hidden \ {{}}, t \in BOOLEAN : AllLeavesUsed("zkpok", U, t)
           /\ \A U \in Hidden : AllLeavesUsed("spok", U, FALSE)
\* C17: no (value, randomness) pair of a commitment to a hidden secret is in the format
C17noOpenings == \A U \in Hidden \ {{}} :
                   /\ Format("zkpok", U, TRUE) = FormatWith("zkpok", U, TRUE, {"value"})
                   /\ Format("spok", U, FALSE) = FormatWith("spok", U, FALSE, {"value"})
\* C17 (range proofs inside the proofs): the library's split of the randomness has no public pair; a split
\* that derives the upper side from the lower side has one (the model of the defect the check must catch)
C17split == /\ NoPublicPair(SplitParts(FALSE)) /\ AllFourCancel(SplitParts(FALSE))
            /\ ~NoPublicPair(SplitParts(TRUE))
C19masks == \A ln \in {1024, 2048, 3072} :
              /\ \A r \in MaskTable(ln) : MasksDivC(r) /\ Masks(r)
              /\ QuotientLeaks(ln) = {}
              \* the range proofs about an attribute (256 bits), e (258 bits) and a commitment randomness (ln bits)
              /\ \A lx \in {256, 258, ln} : Masks(RangeSquareResp(lx))
C18toy ==
  \A p \in SafePrimes(Bound) : \A q \in SafePrimes(Bound) :
     p < q =>
       LET N == p * q
           h == (3 * 3) % N
       IN  /\ \A r \in 1 .. N - 1 : QrAccepted(r, N) => WellFormedElement((r * r) % N, p, q)
           /\ WellFormedElement(h, p, q) =>
                \A f \in 0 .. ((p - 1) \div 2) * ((q - 1) \div 2) :
                   LET g == PowM(h, f, N) IN (g > 1 /\ Gcd(g, N) = 1) => WellFormedElement(g, p, q)

\* informational: the links between sub-proofs that the composite verifiers do not check (F11)
ReportLinks == PrintT(<< "MISSING-LINKS", ToJson(MissingLinks) >>)

\* the derivations, as cases for the replayer: accepted iff the attribute vector is unchanged
ExportDerivs ==
  \A n \in 1 .. 5 :
    \A d \in {dd \in Derivs(IF n <= MaxN THEN n ELSE 1) : n <= MaxN} \cup
             {<< [i \in 1 .. n |-> IF i = j THEN c ELSE 0], 0 >> : j \in 1 .. n, c \in {-1, 1}} :
       PrintT(<< "CASE", ToJson([alpha |-> d[1], beta |-> d[2], accept |-> (d[1] = Zero(Len(d[1])))]) >>)
=============================================================================
