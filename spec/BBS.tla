-------------------------------- MODULE BBS --------------------------------
(***************************************************************************)
(* draft-irtf-cfrg-bbs-signatures-08 and draft-irtf-cfrg-bbs-blind-        *)
(* signatures-01 as zkryptium implements them, written mechanically: every  *)
(* operator follows the order of the code (src/bbsplus/*.rs) and of the     *)
(* drafts, every hash input is an instance of a layout of Layouts.tla, and  *)
(* every value is evaluated in the toy interpretation of Toy.tla under a    *)
(* sample index k.                                                          *)
(*                                                                          *)
(* Conventions.  A suite is "sha" or "shake"; an interface is "plain" or    *)
(* "blind"; api(s, i) is the interface identifier; BG(s) is the identifier  *)
(* of the committed-message generators ("BLIND_" || api(s, blind)).         *)
(* Octet strings (headers, messages, key material) are sequences of small  *)
(* naturals ("abstract octets").  Generator lists are 1-based sequences     *)
(* <<Q1, H_1, .., H_L>>.  Message indexes are 0-based as in the API.        *)
(***************************************************************************)
EXTENDS Toy, Layouts, FiniteSets

CONSTANT K                     \* number of samples of the toy interpretation
Samples == 1 .. K

Suites == {"sha", "shake"}
Ifaces == {"plain", "blind"}

SuiteNum(s) == IF s = "sha" THEN 11 ELSE 12
\* numeric identity of an api_id octet string (suite, interface, BLIND_ prefix)
ApiNum(s, i, bg) == 100 + (SuiteNum(s) * 4) + (IF i = "blind" THEN 2 ELSE 0) + (IF bg THEN 1 ELSE 0)
Api(s, i)  == [s |-> s, num |-> ApiNum(s, i, FALSE)]
BG(s)      == [s |-> s, num |-> ApiNum(s, "blind", TRUE)]
ApiOct(a)  == << a.num >>       \* the api_id as (abstract) octets

LitNum(str) ==
  CASE str = "MESSAGE_GENERATOR_SEED"      -> 201
    [] str = "KEYGEN_DST_"                 -> 202
    [] str = "MAP_MSG_TO_SCALAR_AS_HASH_"  -> 203
    [] str = "H2S_"                        -> 204
    [] str = "SIG_GENERATOR_SEED_"         -> 205
    [] str = "SIG_GENERATOR_DST_"          -> 206
    [] OTHER                               -> 299

\* ------------------------------------------------------------------------
\* layout instantiation: field list + environment -> token stream
\* ------------------------------------------------------------------------
FieldToks(f, env) ==
  CASE f.k = "lit"   -> << Tok(TLIT, LitNum(f.n)) >>
    [] f.k = "oct"   -> [j \in 1 .. Len(env[f.n]) |-> Tok(TOCT, env[f.n][j])]
    [] f.k = "u64"   -> << Tok(TU64, env[f.n]) >>
    [] f.k = "len64" -> << Tok(TU64, Len(env[f.n])) >>
    [] f.k = "len16" -> << Tok(TU16, Len(env[f.n])) >>
    [] f.k = "pk"    -> << Tok(TPK, env[f.n]) >>
    [] f.k = "pt"    -> << Tok(TPT, env[f.n]) >>
    [] f.k = "pts"   -> [j \in 1 .. Len(env[f.n]) |-> Tok(TPT, env[f.n][j])]
    [] f.k = "sc"    -> << Tok(TSC, env[f.n]) >>
    [] f.k = "scs"   -> [j \in 1 .. Len(env[f.n]) |-> Tok(TSC, env[f.n][j])]
    [] f.k = "pairs" -> Flat([j \in 1 .. Len(env[f.n]) |->
                               << Tok(TU64, env[f.n][j][1]), Tok(TSC, env[f.n][j][2]) >>], 1)

Toks(fields, env) == Flat([j \in 1 .. Len(fields) |-> FieldToks(fields[j], env)], 1)

\* seed of a hash: sample, hash function of the suite, DST = api_id || suffix
DstSeed(k, a, suffix) == Mix(Mix(Mix(k, SuiteNum(a.s)), a.num), LitNum(suffix))
\* hash_to_scalar of an instantiated layout under api a
HashL(k, a, name, env) == Hash(DstSeed(k, a, Hashes[name].dst), Toks(Hashes[name].fields, env))
\* key generation may use a caller-chosen DST (abstract octets)
HashKeyDst(k, s, dst, env) == Hash(Mix(Mix(k, SuiteNum(s)), Hash(31, [j \in 1 .. Len(dst) |-> Tok(TOCT, dst[j])])),
                                   Toks(Hashes["keygen"].fields, env))

\* ------------------------------------------------------------------------
\* keys
\* ------------------------------------------------------------------------
\* key_gen(ikm, key_info, key_dst = None) under suite s
KeyGenSk(k, s, ikm, info) ==
  NZ(HashL(k, Api(s, "plain"), "keygen", [ikm |-> ikm, key_info |-> info]))
\* a key pair known by a handle: sk is an independent leaf; pk = sk * BP2 (dlog of BP2 is 1)
SkOf(k, key) == Rnd(k, << 1, key >>)
PkOf(k, key) == SkOf(k, key)

\* ------------------------------------------------------------------------
\* generators (prefix-consistent chain v_0, v_1, ...; generator i = h2c(v_i))
\* ------------------------------------------------------------------------
P1(k, s) == NZ(Hash(Mix(Mix(k, SuiteNum(s)), 4001), << >>))
RECURSIVE GenV(_, _, _)
GenV(k, a, i) ==
  IF i = 0 THEN HashL(k, a, "gen_seed", [api |-> ApiOct(a)])
  ELSE HashL(k, a, "gen_iter", [v |-> << GenV(k, a, i - 1) >>, i |-> i])
Gen(k, a, i) == NZ(HashL(k, a, "gen_point", [v |-> << GenV(k, a, i) >>]))
Gens(k, a, n) == [i \in 1 .. n |-> Gen(k, a, i)]           \* <<Q1, H_1, .., H_{n-1}>>

\* ------------------------------------------------------------------------
\* messages, domain, B
\* ------------------------------------------------------------------------
MsgSc(k, a, m) == HashL(k, a, "map_msg", [msg |-> m])
MsgScs(k, a, ms) == [j \in 1 .. Len(ms) |-> MsgSc(k, a, ms[j])]

\* calculate_domain(pk, Q1, H_points, header, api_id); hdr already defaulted to <<>>
Domain(k, a, pk, gens, hdr) ==
  HashL(k, a, "domain", [pk |-> pk, L |-> Len(gens) - 1, Q1 |-> gens[1], H |-> Tail(gens),
                          api |-> ApiOct(a), hdr |-> hdr])

RECURSIVE SumHM(_, _, _)
SumHM(gens, ms, j) == IF j > Len(ms) THEN 0 ELSE Ad(Mu(gens[j + 1], ms[j]), SumHM(gens, ms, j + 1))
\* B = P1 + Q1 * domain + sum_i H_i * m_i
BPoint(k, s, gens, dom, ms) == Ad(Ad(P1(k, s), Mu(gens[1], dom)), SumHM(gens, ms, 1))

\* ------------------------------------------------------------------------
\* core_sign / core_verify    (results: [ok, A, e] / BOOLEAN)
\* ------------------------------------------------------------------------
CoreSign(k, a, sk, pk, gens, hdr, ms) ==
  IF Len(gens) # Len(ms) + 1 THEN [ok |-> FALSE, A |-> 0, e |-> 0]
  ELSE LET dom == Domain(k, a, pk, gens, hdr)
           e   == HashL(k, a, "sig_e", [sk |-> sk, msgs |-> ms, domain |-> dom])
           B   == BPoint(k, a.s, gens, dom, ms)
           A   == Mu(B, Inv(Ad(sk, e)))
       IN  [ok |-> (Ad(sk, e) # 0 /\ A # 0), A |-> A, e |-> e]

\* e(A, W + BP2 * e) * e(B, -BP2) = 1   <=>   A * (w + e) = B   in the toy group
CoreVerify(k, a, pk, sig, gens, hdr, ms) ==
  /\ Len(gens) = Len(ms) + 1
  /\ LET dom == Domain(k, a, pk, gens, hdr)
         B   == BPoint(k, a.s, gens, dom, ms)
     IN  Mu(sig.A, Ad(pk, sig.e)) = B

\* ------------------------------------------------------------------------
\* proofs: proof_init, challenge, proof_finalize, proof_verify_init
\* ------------------------------------------------------------------------
\* sorted sequence of a finite set of naturals
LOCAL INSTANCE SequencesExt
SortSet(S) == SetToSortSeq(S, LAMBDA a, b : a < b)
\* undisclosed indexes (0-based) of a vector of length L given the disclosed set
Undisclosed(L, D) == SortSet({i \in 0 .. L - 1 : i \notin D})

Challenge(k, a, dpairs, Abar, Bbar, D, T1, T2, dom, ph) ==
  HashL(k, a, "challenge", [R |-> Len(dpairs), disc |-> dpairs, Abar |-> Abar, Bbar |-> Bbar,
                             D |-> D, T1 |-> T1, T2 |-> T2, domain |-> dom, ph |-> ph])

\* rnd = <<r1, r2, e~, r1~, r3~, m~_1 .. m~_U>>;  D = set of disclosed 0-based indexes < L
CoreProofGen(k, a, pk, sig, gens, hdr, ph, ms, D, rnd) ==
  LET L    == Len(ms)
      und  == Undisclosed(L, D)
      U    == Len(und)
      dsq  == SortSet(D)
      dom  == Domain(k, a, pk, gens, hdr)
      B    == BPoint(k, a.s, gens, dom, ms)
      r1 == rnd[1]  r2 == rnd[2]  et == rnd[3]  r1t == rnd[4]  r3t == rnd[5]
      Dp   == Mu(B, r2)
      Abar == Mu(sig.A, Mu(r1, r2))
      Bbar == Sb(Mu(Dp, r1), Mu(Abar, sig.e))
      T1   == Ad(Mu(Abar, et), Mu(Dp, r1t))
      T2m  == [j \in 1 .. U |-> Mu(gens[und[j] + 2], rnd[5 + j])]
      RECURSIVE SumSeq(_, _)
      SumSeq(s, j) == IF j > Len(s) THEN 0 ELSE Ad(s[j], SumSeq(s, j + 1))
      T2   == Ad(Mu(Dp, r3t), SumSeq(T2m, 1))
      dp   == [j \in 1 .. Len(dsq) |-> << dsq[j], ms[dsq[j] + 1] >>]
      c    == Challenge(k, a, dp, Abar, Bbar, Dp, T1, T2, dom, ph)
      r3   == Inv(r2)
  IN  [Abar |-> Abar, Bbar |-> Bbar, D |-> Dp,
       ecap |-> Ad(et, Mu(sig.e, c)), r1cap |-> Sb(r1t, Mu(r1, c)), r3cap |-> Sb(r3t, Mu(r3, c)),
       mcap |-> [j \in 1 .. U |-> Ad(rnd[5 + j], Mu(ms[und[j] + 1], c))], c |-> c]

\* dpairs = sequence of <<index, scalar>> sorted by index, indexes distinct
\* "ident" = the draft's rule that Abar, Bbar, D must not be the identity
CoreProofVerify(k, a, pk, p, gens, hdr, ph, dpairs, ident) ==
  LET U  == Len(p.mcap)
      R  == Len(dpairs)
      L  == U + R
      DI == {dpairs[j][1] : j \in 1 .. R}
  IN
  /\ \A i \in DI : i < L
  /\ Len(gens) = L + 1
  /\ ident => (p.Abar # 0 /\ p.Bbar # 0 /\ p.D # 0)
  /\ LET und == Undisclosed(L, DI)
         dom == Domain(k, a, pk, gens, hdr)
         T1  == Ad(Ad(Mu(p.Bbar, p.c), Mu(p.Abar, p.ecap)), Mu(p.D, p.r1cap))
         RECURSIVE SumD(_)
         SumD(j) == IF j > R THEN 0 ELSE Ad(Mu(gens[dpairs[j][1] + 2], dpairs[j][2]), SumD(j + 1))
         Bv  == Ad(Ad(P1(k, a.s), Mu(gens[1], dom)), SumD(1))
         RECURSIVE SumU(_)
         SumU(j) == IF j > U THEN 0 ELSE Ad(Mu(gens[und[j] + 2], p.mcap[j]), SumU(j + 1))
         T2  == Ad(Ad(Mu(Bv, p.c), Mu(p.D, p.r3cap)), SumU(1))
         c   == Challenge(k, a, dpairs, p.Abar, p.Bbar, p.D, T1, T2, dom, ph)
     IN  /\ c = p.c
         /\ Mu(p.Abar, pk) = p.Bbar          \* e(Abar, W) = e(Bbar, BP2)

\* ------------------------------------------------------------------------
\* blind extension
\* ------------------------------------------------------------------------
\* generators used to verify a blind signature over L signer and M committed messages:
\*   <<Q1, H_1..H_L>> \o <<Q2, J_1..J_M>>     message slots: msgs, blind, cmsgs
BlindGens(k, s, L, M) == Gens(k, Api(s, "blind"), L + 1) \o Gens(k, BG(s), M + 1)

\* rnd = <<secret_prover_blind, s~, m~_1 .. m~_M>>
Commit(k, s, cms, rnd) ==
  LET a   == Api(s, "blind")
      M   == Len(cms)
      bg  == Gens(k, BG(s), M + 1)
      sc  == MsgScs(k, a, cms)
      RECURSIVE SumC(_, _)
      SumC(v, j) == IF j > M THEN 0 ELSE Ad(Mu(bg[j + 1], v[j]), SumC(v, j + 1))
      C    == Ad(Mu(bg[1], rnd[1]), SumC(sc, 1))
      Cbar == Ad(Mu(bg[1], rnd[2]), SumC([j \in 1 .. M |-> rnd[2 + j]], 1))
      c    == HashL(k, a, "blind_challenge", [M |-> M, bgens |-> bg, C |-> C, Cbar |-> Cbar])
  IN  [C |-> C, scap |-> Ad(rnd[2], Mu(rnd[1], c)),
       mcap |-> [j \in 1 .. M |-> Ad(rnd[2 + j], Mu(sc[j], c))], c |-> c]

\* core_commit_verify with the first M+1 committed-message generators
CommitVerify(k, s, cm) ==
  LET a   == Api(s, "blind")
      M   == Len(cm.mcap)
      bg  == Gens(k, BG(s), M + 1)
      RECURSIVE SumC(_)
      SumC(j) == IF j > M THEN 0 ELSE Ad(Mu(bg[j + 1], cm.mcap[j]), SumC(j + 1))
      Cbar == Sb(Ad(Mu(bg[1], cm.scap), SumC(1)), Mu(cm.C, cm.c))
  IN  HashL(k, a, "blind_challenge", [M |-> M, bgens |-> bg, C |-> cm.C, Cbar |-> Cbar]) = cm.c

\* finalize_blind_sign: B = P1 + sum H_i m_i + C, domain over H_1..H_L, Q2, J_1..J_M,
\* e = h2s(sk || B + Q1 * domain);   Cpt = commitment point (0 when there is none), M its size
BlindSign(k, s, sk, pk, Cpt, M, hdr, ms) ==
  LET a   == Api(s, "blind")
      L   == Len(ms)
      g   == BlindGens(k, s, L, M)
      B0  == Ad(Ad(P1(k, s), SumHM(g, ms, 1)), Cpt)
      dom == Domain(k, a, pk, g, hdr)
      B   == Ad(B0, Mu(g[1], dom))
      e   == HashL(k, a, "blind_sig_e", [sk |-> sk, B |-> B])
  IN  [ok |-> (B0 # 0 /\ Ad(sk, e) # 0), A |-> Mu(B, Inv(Ad(sk, e))), e |-> e]

\* verify_blind_sign = core_verify over msgs || <<blind>> || cmsgs
BlindVerify(k, s, pk, sig, hdr, ms, blind, cms) ==
  LET a == Api(s, "blind")
  IN  CoreVerify(k, a, pk, sig, BlindGens(k, s, Len(ms), Len(cms)), hdr,
                 ms \o << blind >> \o cms)
=============================================================================
