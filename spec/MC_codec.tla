------------------------------ MODULE MC_codec ------------------------------
(***************************************************************************)
(* Slices `codec` and `untrusted` (properties C08, C09): every decoder at    *)
(* every length from 0 to its honest length + 64, every single-field         *)
(* content class at the honest length (and with trailing octets), and the    *)
(* grid of caller-supplied numbers of the verifying / generating entry       *)
(* points.  One state per input; the predicted decision is exported and the  *)
(* replayer executes the same input against the real decoders.               *)
(***************************************************************************)
EXTENDS Codec, Json, TLC

CONSTANT MaxN               \* variable encodings are exercised with 0 .. MaxN variable scalars

VARIABLES pc, inp
mvars == << pc, inp >>

Ns(c) == IF Variable(c) THEN 0 .. MaxN ELSE {0}
AllValid(c, n) == [j \in 1 .. Len(Kinds(c, n)) |-> "valid"]

DecodeCase(c, n, cls, delta) ==
  [kind |-> "decode", codec |-> c, n |-> n, cls |-> cls, delta |-> delta,
   res |-> Decode(c, n, cls, delta), relen |-> ReEncLen(c, n, delta)]

Lengths == /\ pc = "go"
           /\ \E c \in Codecs : \E n \in Ns(c) : \E delta \in (0 - EncLen(c, n)) .. 64 :
                 inp' = DecodeCase(c, n, AllValid(c, n), delta)
           /\ pc' = "done"
ClassesAt == /\ pc = "go"
             /\ \E c \in Codecs : \E n \in Ns(c) : \E j \in 1 .. Len(Kinds(c, n)) :
                   \E cl \in ClassesOf(Kinds(c, n)[j]) \ {"valid"}, delta \in {0, 1, 32, 33} :
                      inp' = DecodeCase(c, n, [AllValid(c, n) EXCEPT ![j] = cl], delta)
             /\ pc' = "done"

Ix(U) == {<< >>, << 0 >>, << 1 >>, << U >>, << U + 1 >>, << Half >>, << MaxU >>, << 0, 0 >>, << 1, 0 >>, << 0, MaxU >>,
          << MaxU, 0 >>, << U + 2, 0 >>, << Half, 1, 0 >>}        \* not ascending, an out-of-range index first
CountCase(op, a, r) == [kind |-> "counts", op |-> op, a |-> a, res |-> r.res, gens |-> r.gens]
Counts ==
  /\ pc = "go"
  /\ \/ \E U \in 0 .. 2, ix \in Ix(2), nm \in 0 .. 2 :
          inp' = CountCase("ProofVerify", [U |-> U, ix |-> ix, nmsgs |-> nm], ProofVerifyCounts(U, ix, nm))
     \/ \E U \in 1 .. 2, L \in {0, 1, 2, 3, Big, MaxU - 1, MaxU}, ix1 \in {<< >>, << 0 >>, << MaxU >>},
           ix2 \in {<< >>, << 0 >>, << Half >>, << MaxU >>}, nm \in 0 .. 2 :
          inp' = CountCase("BlindProofVerify", [U |-> U, L |-> L, ix1 |-> ix1, ix2 |-> ix2, nmsgs |-> nm],
                           BlindProofVerifyCounts(U, L, ix1, ix2, nm))
     \/ \E idx \in {0, 1, 2, 3, Half, MaxU - 1, MaxU}, n \in {0, 1, 3, 4, 1000, Big, Half, MaxU - 1, MaxU} :
          inp' = CountCase("Update", [idx |-> idx, n |-> n], UpdateCounts(idx, n))
     \/ \E L \in {0, 1, 3}, ix \in Ix(3) :
          inp' = CountCase("ProofGen", [L |-> L, ix |-> ix], ProofGenCounts(L, ix))
     \/ \E L \in {0, 2}, M \in {0, 2}, ix1 \in {<< >>, << 0 >>, << 2 >>, << MaxU >>, << 0, 0, 0 >>}, ix2 \in {<< >>, << 0 >>, << 2 >>, << MaxU >>} :
          inp' = CountCase("BlindProofGen", [L |-> L, M |-> M, ix1 |-> ix1, ix2 |-> ix2], BlindProofGenCounts(L, M, ix1, ix2))
  /\ pc' = "done"

Init == pc = "go" /\ inp = [kind |-> "none"]
Next == Lengths \/ ClassesAt \/ Counts

\* C08 on the specification: no input makes a decoder or a count computation panic, and the
\* generators requested stay within the budget of the input size
C08 == /\ (inp.kind = "decode" => inp.res \in {"Ok", "Err"})
       /\ (inp.kind = "counts" => inp.res \in {"Pass", "Err"})
       /\ (inp.kind = "counts" /\ inp.op \in {"ProofVerify", "BlindProofVerify", "ProofGen", "BlindProofGen"} /\ inp.res = "Pass"
             => inp.gens <= Budget(inp.gens))
\* C09 on the specification: whatever decodes re-encodes to itself
C09 == inp.kind = "decode" /\ inp.res = "Ok" => inp.relen = EncLen(inp.codec, inp.n) + inp.delta

Export == pc = "done" => PrintT(<< "CASE", ToJson(inp) >>)
=============================================================================
