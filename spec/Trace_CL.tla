------------------------------ MODULE Trace_CL ------------------------------
(***************************************************************************)
(* Validation of the logs of the CL03 drivers (properties C13 .. C19).      *)
(* Every event is one observation of the real library (feature cl03); it is *)
(* accepted iff it is what CL03.tla predicts for its abstract arguments.    *)
(* With Dev = {} the predictions are the intended behaviour; with the       *)
(* deviation switches of the open findings turned on they are the as-is     *)
(* behaviour of the pinned code (the runner validates against both and      *)
(* reports the difference as KNOWN-FINDING).                                *)
(***************************************************************************)
EXTENDS CL03, Json, IOUtils, TLC

VARIABLE l
Log == ndJsonDeserialize(IOEnv.TRACE)
Ev == Log[l]
SeqSet(s) == {s[j] : j \in 1 .. Len(s)}
IsTrue(v) == v = "true"                 \* results are "true" / "false" / "panic"; a panic counts as not verifying

Ln(suite) == suite                       \* modulus bits
SecParam(suite) == suite \div 2

\* ---- C13 ------------------------------------------------------------------
PVerify ==
  LET unchanged == \A j \in 1 .. Len(Ev.alpha) : Ev.alpha[j] = 0
      \* (edits named "forged:.." / "mauled:.." are signatures assembled without the secret key)
      expected == \/ (Ev.stmt = "same" /\ Ev.edit = "none")
                  \/ (Ev.stmt = "derived" /\ (unchanged \/ "F7" \in Dev))
  IN  IsTrue(Ev.res) = expected
PSigFacts == Ev.e_prime = TRUE /\ Ev.e_bits = Ev.le /\ Ev.e_coprime = TRUE
PDisclose == IsTrue(Ev.res)
PRoundTrip == IsTrue(Ev.res)

\* ---- C14 ------------------------------------------------------------------
\* F6: the pinned code commits hidden attributes with base a_0: only U = {0} works
IssueWorks == "F6" \notin Dev \/ SeqSet(Ev.U) = {0}
PIssue ==
  IF Ev.mismatch = "none"
  THEN (IsTrue(Ev.verify_proof) /\ Ev.signed = TRUE /\ Ev.verifies = TRUE) = IssueWorks
  ELSE ~IsTrue(Ev.verify_proof) /\ Ev.signed = FALSE
PUpdate == IsTrue(Ev.new_ok) /\ ~IsTrue(Ev.old_ok)

\* ---- C15 / C17: formats and leaves ---------------------------------------------
PFormat == SeqSet(Ev.paths) = Format(Ev.proof, SeqSet(Ev.U), Ev.trusted)
\* altering a leaf is detected exactly when the verifier uses the leaf
\* (a swap alters two leaves: it goes unnoticed only if both are unused)
PLeaf == LET un == Unused(Ev.proof, SeqSet(Ev.U), Ev.trusted)
         IN  IsTrue(Ev.res) = (Ev.path \in un /\ Ev.path2 \in un)
PPoK == IsTrue(Ev.res) = (Ev.mismatch = "none")

\* ---- C16 ------------------------------------------------------------------
PRange ==
  IF Ev.case = "honest" THEN IsTrue(Ev.res)
  ELSE IF Ev.case \in {"outside", "other_bounds", "other_bases", "other_modulus"} THEN ~IsTrue(Ev.res)
  \* shifted proofs (E / g^d with the responses of the larger-interval proofs moved by 2^T d c): accepted
  \* only where the tolerance of the larger-interval proof is not below one unit (F13)
  ELSE IF Ev.case \in {"shifted:a-1", "shifted:b+1", "shifted:a-w", "shifted:b+w"} THEN IsTrue(Ev.res) = ("F13" \in Dev)
  ELSE IsTrue(Ev.res) = ("F8" \in Dev)                 \* transplants succeed only without the anchoring

\* ---- C17 ------------------------------------------------------------------
\* no commitment opening can be recomputed from the proof (F9: the embedded ones can)
POpenings == IF "F9" \in Dev THEN TRUE ELSE Len(Ev.matches) = 0
PDictionary == IF "F9" \in Dev THEN TRUE ELSE Ev.confirmed = FALSE

\* ---- C19 ------------------------------------------------------------------
\* F10 (as-is): the s/c quotients of the lm-bit masked responses and the s_2/s_1, s_8/s_7
\* quotients reveal their secrets; everything else must stay above 2^64
LeakyDivC == {"proof_commited_msgs/s1/*", "proofs_commited_mi/*/value/s1", "proof_r/value/s1", "proof_C_Ctrusted/d/*"}
LeakyQuot == {"spok/s_2 / spok/s_1", "spok/s_8 / spok/s_7"}
PMask ==
  \/ Ev.bits >= 64
  \/ /\ "F10" \in Dev
     /\ \/ (Ev.kind = "s/c" /\ Ev.path \in LeakyDivC)
        \/ (Ev.kind = "s/s'" /\ Ev.path \in LeakyQuot /\ Ev.secret = "e")
\* range proofs inside the proofs: floor(d / c)^2 / 2^T of a proof of square must stay 2^64 away from the value the
\* range proof is about (F16 as is: it is that value)
PRangeMask == Ev.bits >= 64 \/ "F16" \in Dev
\* (drift) the requested lengths of the draws; not a verdict
PMaskLens == TRUE
PMaskSummary == Ev.responses >= 1 /\ Ev.challenges >= 1
\* no response is a function of a secret alone, no two responses share their blinding
PUnblinded == Len(Ev.hits) = 0
PSharedBlinding == Len(Ev.hits) = 0
\* the blinding draws of proofs made on different threads (and one after the other) are all different
PFresh == Ev.distinct = Ev.draws /\ Ev.draws >= 10
\* the per-attribute commitments of a proof use independent randomness: with the g-parts stripped no two are equal or cancel
PCommitRand == Len(Ev.hits) = 0
\* Boudot proof: the randomness of the commitment is split independently on the two sides; with the g-parts
\* stripped (the witness holder can), the four parts multiply to 1 and no two of them are equal or cancel --
\* otherwise a product of two proof fields is a function of the hidden value alone (a dictionary attack)
\* (stripped = 0: the driver could not identify the decomposition, e.g. because the scaling exponent T is not the
\* one it assumes -- an internal parameter, not part of the property: no verdict then)
PRangeSplit == Ev.stripped \in {0, 4} /\ Len(Ev.hits) = 0

\* ---- C18 ------------------------------------------------------------------
PKeyFacts ==
  /\ Ev.n_is_pq = TRUE /\ Ev.p_ne_q = TRUE
  /\ Ev.p_prime = TRUE /\ Ev.q_prime = TRUE /\ Ev.p_half_prime = TRUE /\ Ev.q_half_prime = TRUE
  /\ Ev.p_bits = Ev.secparam + 1 /\ Ev.q_bits = Ev.secparam + 1
  /\ Ev.elements_qr = TRUE /\ Ev.cpk_issuer_qr = TRUE /\ Ev.cpk_issuer_modulus_is_issuer = TRUE
  /\ Ev.cpk_own_in_range = TRUE /\ Ev.cpk_own_not_square = TRUE
  /\ Ev.cpk_own_modulus_bits \in {2 * Ev.secparam + 1, 2 * Ev.secparam + 2}
  /\ IsTrue(Ev.roundtrip)
PRandomFacts == Ev.random_bits_exact = TRUE /\ Ev.rand_int_in_range = TRUE /\ Ev.rand_int_endpoints = TRUE

Pred ==
  CASE Ev.op = "CLVerify"     -> PVerify
    [] Ev.op = "CLSigFacts"   -> PSigFacts
    [] Ev.op = "CLDisclose"   -> PDisclose
    [] Ev.op = "CLRoundTrip"  -> PRoundTrip
    [] Ev.op = "CLIssue"      -> PIssue
    [] Ev.op = "CLUpdate"     -> PUpdate
    [] Ev.op = "CLFormat"     -> PFormat
    [] Ev.op = "CLLeaf"       -> PLeaf
    [] Ev.op = "CLPoK"        -> PPoK
    [] Ev.op = "CLRange"      -> PRange
    [] Ev.op = "CLOpenings"   -> POpenings
    [] Ev.op = "CLDictionary" -> PDictionary
    [] Ev.op = "CLMask"       -> PMask
    [] Ev.op = "CLMaskLens"   -> PMaskLens
    [] Ev.op = "CLRangeMask"  -> PRangeMask
    [] Ev.op = "CLMaskSummary" -> PMaskSummary
    [] Ev.op = "CLUnblinded"  -> PUnblinded
    [] Ev.op = "CLSharedBlinding" -> PSharedBlinding
    [] Ev.op = "CLFresh"      -> PFresh
    [] Ev.op = "CLRangeSplit" -> PRangeSplit
    [] Ev.op = "CLCommitRand" -> PCommitRand
    [] Ev.op = "CLInfoLink"   -> TRUE            \* informational (F11, outside the listed properties)
    [] Ev.op = "CLKeyFacts"   -> PKeyFacts
    [] Ev.op = "CLRandomFacts" -> PRandomFacts

TraceInit == l = 1
TraceNext == l <= Len(Log) /\ Pred /\ l' = l + 1

TraceAccepted ==
  LET d == TLCGet("stats").diameter IN
  IF d - 1 = Len(Log) THEN TRUE
  ELSE Print(<< "TRACE-REJECTED", "events", Len(Log), "matched", d - 1, "first unmatched", ToJson(Log[d]) >>, FALSE)
=============================================================================
