------------------------------ MODULE MC_proof ------------------------------
(***************************************************************************)
(* Slices `proof` and `proof_adv` (properties C03, C04, C11-iii).           *)
(* sign -> proof_gen for EVERY disclosure subset -> exactly one of:         *)
(*   an honest verification (absent/empty presentations, round trip),       *)
(*   a verification of every single edit of the verifier's statement,       *)
(*   a verification after tampering with the encoded proof (each point,     *)
(*   each scalar, one scalar removed / appended),                           *)
(*   a verification under the other suite / through the blind interface.    *)
(* A second family of behaviours lets the attacker assemble a proof from    *)
(* public data only (Api!Craft) and present it for the targeted statement.  *)
(***************************************************************************)
EXTENDS MCBase

CONSTANTS MaxL, Rich, Mode \* Rich = TRUE adds header/ph variants and unsorted index lists;
                           \* Mode = "honest" (slice proof), "adv" (slice proof_adv) or "all"

Hdrs == IF Rich THEN {NoneO, << >>, << 1 >>} ELSE {NoneO, << 1 >>}
Phs  == IF Rich THEN {NoneO, << >>, << 2 >>} ELSE {NoneO, << 2 >>}
Vecs == SeqsUpTo(Atoms, MaxL)
FormsO(x) == IF x = << >> THEN {NoneO, << >>} ELSE {x}
FormsV(x) == IF x = << >> THEN {NoneV, << >>} ELSE {x}

Setup == pc = "setup" /\ Step(KeyGen(IF 1 \in keys THEN 2 ELSE 1))
         /\ pc' = IF 1 \in keys THEN "sign" ELSE "setup"

DoSign == /\ pc = "sign"
          /\ \E s \in Suites, h \in Hdrs, v \in Vecs : Step(Sign(1, s, h, v))
          /\ pc' = "gen"

\* presentations of a disclosure set as an index list
IdxForms(D) ==
  LET srt == SortSet(D)
      rev == [j \in 1 .. Len(srt) |-> srt[Len(srt) + 1 - j]]
  IN  {srt} \cup (IF Rich /\ Len(srt) >= 1 THEN {rev, srt \o << srt[1] >>} ELSE {})
          \cup (IF srt = << >> THEN {NoneO} ELSE {})

DoGen == /\ pc = "gen"
         /\ LET o == objs[NObj] IN
            \E ph \in Phs, D \in SUBSET (0 .. Len(o.msgs) - 1) : \E ix \in IdxForms(D) :
               Step(ProofGen(NObj, 1, o.s, o.hdr, ph, o.msgs, ix))
         /\ pc' = "check"

PH == NObj                     \* the proof under test
Disc(p) == LET ix == SortSet(p.D) IN [j \in 1 .. Len(ix) |-> p.msgs[ix[j] + 1]]
DIdx(p) == SortSet(p.D)

Honest == /\ pc = "check" /\ objs[PH].kind = "proof" /\ objs[PH].mut = {} /\ objs[PH].dl = 0
          /\ LET p == objs[PH] IN
             \E h \in FormsO(p.hdr), f \in FormsO(p.ph), m \in FormsV(Disc(p)), ix \in FormsO(DIdx(p)) :
                Step(ProofVerify(PH, 1, p.s, h, f, m, ix))
          /\ pc' = "done"

RT == /\ pc = "check" /\ last.op = "ProofGen"
      /\ Step(RoundTrip(PH)) /\ pc' = "check"

\* single edits of the verifier's statement
EditStmt ==
  /\ pc = "check" /\ objs[PH].mut = {} /\ objs[PH].dl = 0
  /\ LET p  == objs[PH]
         dm == Disc(p)
         ix == DIdx(p)
         L  == Len(p.msgs)
         R  == Len(ix)
     IN
     \* a disclosed message altered
     \/ \E j \in 1 .. R, m \in Atoms : m # dm[j] /\ Step(ProofVerify(PH, 1, p.s, p.hdr, p.ph, [dm EXCEPT ![j] = m], ix))
     \* an index moved to another position
     \/ \E j \in 1 .. R, i \in 0 .. L : i \notin p.D /\ Step(ProofVerify(PH, 1, p.s, p.hdr, p.ph, dm, [ix EXCEPT ![j] = i]))
     \* two disclosed messages swapped
     \/ \E j1, j2 \in 1 .. R : j1 < j2 /\ dm[j1] # dm[j2]
           /\ Step(ProofVerify(PH, 1, p.s, p.hdr, p.ph, [dm EXCEPT ![j1] = dm[j2], ![j2] = dm[j1]], ix))
     \* a pair removed
     \/ \E j \in 1 .. R : Step(ProofVerify(PH, 1, p.s, p.hdr, p.ph,
                                SubSeq(dm, 1, j - 1) \o SubSeq(dm, j + 1, R), SubSeq(ix, 1, j - 1) \o SubSeq(ix, j + 1, R)))
     \* a pair added: an undisclosed position with its true message, or a position beyond the vector
     \/ \E i \in 0 .. L : i \notin p.D /\
           LET nix == SortSet(p.D \cup {i})
               pos == CHOOSE q \in 1 .. Len(nix) : nix[q] = i
               m   == IF i < L THEN p.msgs[i + 1] ELSE MA
           IN  Step(ProofVerify(PH, 1, p.s, p.hdr, p.ph, SubSeq(dm, 1, pos - 1) \o << m >> \o SubSeq(dm, pos, R), nix))
     \* lists of different lengths: an extra message, an extra index, a repeated index with a forged message
     \/ Step(ProofVerify(PH, 1, p.s, p.hdr, p.ph, Append(dm, MB), ix))
     \/ \E i \in 0 .. L : i \notin p.D /\ Step(ProofVerify(PH, 1, p.s, p.hdr, p.ph, dm, SortSet(p.D \cup {i})))
     \/ R >= 1 /\ Step(ProofVerify(PH, 1, p.s, p.hdr, p.ph, Append(dm, MB), Append(ix, ix[R])))
     \/ R >= 1 /\ Step(ProofVerify(PH, 1, p.s, p.hdr, p.ph, SubSeq(dm, 1, R - 1) \o << MB, dm[R] >>, Append(ix, ix[R])))
     \* header, presentation header, key, suite, interface
     \/ \E h \in {<< >>, << 1 >>, << 2 >>, << 1, 1 >>} \ {p.hdr} : Step(ProofVerify(PH, 1, p.s, h, p.ph, dm, ix))
     \/ \E f \in {<< >>, << 1 >>, << 2 >>, << 2, 2 >>} \ {p.ph} : Step(ProofVerify(PH, 1, p.s, p.hdr, f, dm, ix))
     \/ Step(ProofVerify(PH, 2, p.s, p.hdr, p.ph, dm, ix))
     \/ Step(ProofVerify(PH, 1, Other(p.s), p.hdr, p.ph, dm, ix))
     \/ \E Lv \in {NoneL, L} : Step(BlindProofVerify(PH, 1, p.s, p.hdr, p.ph, Lv, dm, NoneV, ix, NoneO))
  /\ pc' = "done"

NScal(p) == 4 + Len(p.msgs) - Cardinality(p.D)      \* e^, r1^, r3^, m^_1..U, c
DoTamper == /\ pc = "check" /\ last.op = "ProofGen"
            /\ LET p == objs[PH] IN
               \/ \E f \in {101, 102, 103, 201, 202, 203} : Step(Tamper(PH, {f}, 0))
               \/ \E j \in 1 .. NScal(p) : Step(Tamper(PH, {j}, 0))
               \/ \E d \in {-1, 1} : Step(Tamper(PH, {}, d))
            /\ pc' = "tampered"
AfterTamper == /\ pc = "tampered"
               /\ LET p == objs[PH] IN Step(ProofVerify(PH, 1, p.s, p.hdr, p.ph, Disc(p), DIdx(p)))
               /\ pc' = "done"

\* ---- proofs assembled from public data -------------------------------------
PtA == {"id", "zBv", "other", "lo"}
PtB == {"id", "xD", "other", "lo"}
PtD == {"id", "Bv", "yBv", "other"}
Targets == {<< >>, << << 0, MA >> >>, << << 1, MB >> >>, << << 0, MA >>, << 1, ME >> >>}
DoCraft == /\ pc = "sign"
           /\ \E s \in Suites, dp \in Targets, U \in 0 .. 1, a \in PtA, b \in PtB, d \in PtD :
                 /\ (a = "lo") <=> (b = "lo")
                 /\ \A j \in 1 .. Len(dp) : dp[j][1] < U + Len(dp)
                 /\ Step(Craft(1, s, "plain", << 1 >>, << 2 >>, dp, U, 0, [A |-> a, B |-> b, D |-> d]))
           /\ pc' = "crafted"
AfterCraft == /\ pc = "crafted"
              /\ LET c == objs[NObj] IN
                 Step(ProofVerify(NObj, 1, c.s, c.hdr, c.ph, [j \in 1 .. Len(c.dp) |-> c.dp[j][2]], [j \in 1 .. Len(c.dp) |-> c.dp[j][1]]))
              /\ pc' = "done"

Next == \/ Setup \/ DoSign \/ DoGen \/ RT
        \/ (Mode \in {"honest", "all"} /\ Honest)
        \/ (Mode \in {"adv", "all"} /\ (EditStmt \/ DoTamper \/ AfterTamper \/ DoCraft \/ AfterCraft))

MCInit == Init /\ pc = "setup" /\ hist = << >>
=============================================================================
